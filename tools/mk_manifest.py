#!/venv/bin/python
"""Regenerates MANIFEST.json from the table below (keeps it schema-valid)."""
import json
import os

ROOT = os.path.dirname(os.path.dirname(os.path.abspath(__file__)))

EXPL = 'bounded exhaustive enumeration of programs/configurations executed on the real code, reference-semantics oracle'
MC = 'explicit-state model checking of the implementation (exhaustive search over operation sequences, reference-model oracle)'

CHECKS = {
    'C01': ('exploration', 'every circuit over the operator/node library with <=2 (thorough 3) nodes and every edge multiset of size <=2 (3), hierarchy, edge templates, vectorize on/off is compiled by the real code and compared per frontend variable with an independent dict-state reference semantics at a base point plus all single deviations of every state variable and constant',
            'finite probe alphabet instead of all reals; models larger than the bounds and operators outside the library are not covered; reference semantics (pyx/refsem) is trusted and self-tested', EXPL, 'DESIGN.md 3 C01'),
    'C02': ('exploration', 'feature basket (operators covering the functions of the registries, long right-hand sides that force Fortran line wrapping with exponents, circuits with weighted sums / matvec / index helpers, edge templates, hierarchy) x backend{default, torch, jax, fortran} x precision{float64, float32} x vectorize x vector-field convention{in-place, returned}: vector field per frontend variable at a base point plus all single deviations and the returned argument values vs the reference semantics (hence vs every other backend); trajectories for every solver a backend supports vs the default backend; discrete delay buffers on torch/fortran; extrinsic-input interpolation per backend is decided by C08',
            'Julia/Matlab/TensorFlow backends are not installed; float32 cells are compared at 3e-4 relative; quick tier builds 5 Fortran models', EXPL, 'DESIGN.md 3 C02'),
    'C03': ('exploration', 'full lattice model x solver(euler, heun) x dt x dts/dt x T/dts x cutoff on binary-fraction grids plus slices for scipy methods, torch and jax solvers: the DataFrame of run() is compared row by row and index by index with the harness own Euler/Heun loop over the vector field of an identically built template (exact), with closed forms for adaptive solvers, and two-level refinement for convergence',
            'five small models; T a multiple of the sampling step; stiff systems not covered', EXPL, 'DESIGN.md 3 C03'),
    'C04': ('exploration', 'circuits of 1..N structurally identical nodes per type with pairwise distinct per-node parameters; every weight pattern over a 3-value alphabet for 2x2 blocks and all patterns with <=3 non-zeros for larger/non-square blocks, two node types, delays, edge templates, matrix_sparseness thresholds: compiled with vectorize on and off from fresh state; derivative per frontend variable at a base point plus all single deviations and euler trajectories must agree with each other and with the reference semantics',
            'N <= 4 nodes per type; finite probe alphabet', EXPL, 'DESIGN.md 3 C04'),
    'C05': ('exploration', 'every operator-labelled expression skeleton with <=3 (thorough 4) operator nodes over + - * / ^, unary minus and the documented functions, leaves from colliding identifier sets, in 4 surface variants and 3 equation forms, evaluated on both paths of the real code (parser + eval_node; generated source) at 3 valuations and compared with python-ast/NumPy evaluation',
            'finite valuations instead of all reals; expressions larger than the bound; index helpers on arrays are covered by C01/C04/C09 models only; valuations outside the real domain of an expression are rejected', EXPL, 'DESIGN.md 3 C05'),
    'C06': ('exploration', 'circuits of 2-3 (4) decaying nodes with pairwise different rate and initial value, depth 0-1 (2), ALL permutations of the node declaration order, a second node type that breaks the vectorization group; every output request form (dict/list, single, wildcard at each level, several keys, mixed) x vectorize: each DataFrame column must hold the closed-form trajectory of exactly the node named by its label; plus get_variable_positions after get_run_func on nodes whose operators share a variable name',
            'paths as edge endpoints, input targets and update_var keys are decided by C01, C08 and C07; population outputs by C16', EXPL, 'DESIGN.md 3 C06'),
    'C07': ('model_checking', 'every history of <=2 (thorough 3) operations from {update_var scalar / wildcard / per-node array on constants, initial values and input defaults, update_var(edge_vars), apply(node_values)} on flat and hierarchical templates whose nodes share NodeTemplate and OperatorTemplate objects; after every history the compiled arguments, initial state, input defaults and edge weights (vectorize on/off) are compared with a plain dict reference model',
            'values from a small alphabet; histories longer than the bound; update_template-based replacement of nodes is covered by C14 seeds only', MC, 'DESIGN.md 3 C07'),
    'C08': ('exploration', 'pure integrators in 1-4 nodes at hierarchy depth 0-2 x every listed target selection (single, wildcard, hierarchical, two inputs on one variable, edge onto the same variable) x array shapes (N,), (N,1), (N,n) with strictly distinct samples x solver x backend x vectorize: trajectories of run() and values of the compiled function at on-grid, mid-grid and out-of-range t vs a dict-state reference (sample k during step k; np.interp on linspace(0,T,N) and its exact integral for adaptive solvers)',
            'input values from one deterministic table; N <= 13 samples; quick tier covers torch/jax/fortran on a slice only', EXPL, 'DESIGN.md 3 C08'),
    'C09': ('exploration', 'ramp sources x 1-3 targets x per-edge delay in {none, 2dt, 3dt, 2.4dt, 2.6dt, 5dt} over shared-source, parallel, shared-target and feedback topologies x vectorize: every euler trajectory of run() compared row by row with the reference recurrence with explicit history (src[k-D], zero before start, undelayed edges read src[k])',
            'delays below two steps are outside the property; Connectivity (matrix) delays are covered by C16; one dt', EXPL, 'DESIGN.md 3 C09'),
    'C10': ('exploration', 'operators with 1-3 state variables and 1-2 (3) delayed terms over every (variable, delay as named constant or literal, notation past(x,tau) / x(t-tau), coefficient sign) combination with the delayed variable at every position, for the euler (step counter) and scipy conventions: the compiled function is called with a hand-made quadratic history (distinct per component) at 6 probe times and must equal the reference reading component x of hist(t_time - tau); delayed edges under an adaptive solver; run() vs the method-of-steps solution and vs the exact history of a ramp with delays that are not multiples of the step',
            'default backend only; three delay values; method-of-steps comparison on one scalar equation', EXPL, 'DESIGN.md 3 C10'),
    'C11': ('exploration', 'edges with (delay, spread) from a table whose (d/s)^2 hits {1, 2, 2.4->2, 2.6->3, 4}, mixed with undelayed edges, 1-3 edges sharing a source or a target, vectorize on/off, dde_approx=n on plain delays, euler and scipy: every trajectory of a user variable vs the explicitly written chain of n first-order stages of rate n/d (one per edge); unit steady-state gain on a constant source (Connectivity form: C16)',
            'two base topologies; one step size', EXPL, 'DESIGN.md 3 C11'),
    'C12': ('exploration', 'scalar models: operators covering sigmoid, absv, every transcendental and algebraic intermediates, library circuits with 1-2 edges and edge templates, delayed operators with the delayed variable at every position, 1-2 distinct delays, additive and multiplicative delayed terms, sparse on/off (thorough: jax): J at 3 points vs central differences of the function from get_run_func of an identically built model in the same state ordering, history matrices vs differences with respect to the state delayed by each distinct delay',
            'finite differences with h = 1e-6 (tolerance 1e-6 relative); auto-07p DFDU/DFDP blocks are decided by C18', EXPL, 'DESIGN.md 3 C12'),
    'C13': ('model_checking', 'breadth-first search over all sequences (depth 2 quick, 3 thorough) of an operation alphabet of 50 public API calls on 7 models engineered to collide (same operator name, same structure, shared NodeTemplate object, YAML cache, edges+inputs); every history replayed on the real code from the import-time state, states hashed over all module-level containers + working directory + stored templates; every op must observe what it observes as the first op of a pristine interpreter, and functions returned earlier are re-evaluated after every step',
            'histories longer than the bound; Fortran file-name re-use is not explored; worker reset is cross-checked against fresh interpreters on every run', MC, 'DESIGN.md 3 C13'),
    'C14': ('model_checking', 'seeds {flat, depth-1, depth-2, shared operators with per-node overrides, YAML-derived} x every sequence of <=1 (thorough 2) legitimate mutators x every sequence of <=2 (3 on a sub-alphabet) of the 14 listed read-only / copy-making operations; after every operation the canonical dump of the template (equations, declared values, per-node variations, edges, edge map, object sharing, state bookkeeping) must be unchanged, at the end the vector field must equal that of a pristine twin and repeated run(in_place=False) must return identical frames',
            'an operation that raises is not counted as a violation unless it changed the template; five seeds', MC, 'DESIGN.md 3 C14'),
    'C15': ('exploration', '(a) C01-style models written by an own YAML emitter and loaded with from_yaml, (b) python classes -> to_yaml -> from_yaml with per-node overrides, shared operators, edge templates with attributes and hierarchy - both compared per frontend variable with the reference semantics at a base point plus single deviations; (c) every equation edit kind over identifier sets that contain one another with each identifier at every position against token-level editing, and base: chains of length 1-3',
            'models with <=2 nodes (3 for shared-operator overrides); prepend edits are not enumerated', EXPL, 'DESIGN.md 3 C15'),
    'C16': ('exploration', 'PopulationTemplate(n) x Connectivity circuits with n in 1..3 (4), one or two populations, every weight matrix over a 3-value alphabet for <=2x2 and all matrices with <=3 non-zeros otherwise (non-square, signed, sparse), scalar weights, heterogeneous per-unit parameters and initial states, algebraic and dynamic coupling edges, delays with and without spread: vector field at probe points and euler trajectories (one column per unit, in unit order) vs the unit-by-unit reference expansion and, for plain weights, vs the explicit circuit built with add_edges_from_matrix',
            'input defaults are 0 in the models (an all-zero matrix row is ambiguous between the two readings the property gives otherwise, see DESIGN.md 8); n <= 4', EXPL, 'DESIGN.md 3 C16'),
    'C17': ('exploration', '2 circuits x parameter maps {node parameter, several nodes per key, several variables per key, edge attribute, node+edge, initial value+parameter} x grids {equal-length 2 and 3, permuted} x inputs {none, shared array} x vectorize x solver: for every row of the parameter table returned by grid_search the block of result columns labelled with that row key must equal a separate run of a fresh template updated with those values',
            'two base circuits; grids of at most 6 rows', EXPL, 'DESIGN.md 3 C17'),
    'C18': ('exploration', 'scalar models with P in {1,4,9,10,11,14,16} parameters, declaration order vs order of first use permuted, 1-3 state variables, scenario selections and constant overrides: the generated .f90 and every c.* file are parsed (slots distinct, none in 11-14, declaration order, parnames/unames/STPNT/forwarding call/DFDP columns agree, NDIM/NPAR, overrides) and the f2py-wrapped stpnt/func are executed (declared values in the named slots, vector field equals the reference at probe points with single-parameter deviations through args(slot), dfdu/dfdp equal central differences); _auto_param_indices for every n <= 64',
            'auto-07p itself is not installed: its reading of c.* is represented by the documented key syntax; real f2py builds (about 0.4 s each here)', EXPL, 'DESIGN.md 3 C18'),
    'C19': ('model_checking', 'explicit-state search of all update sequences up to depth 6/7 on the real DDEHistory class, every query of a lattice checked in every state against a list-based reference',
            'values outside the finite alphabets (3 deltas, 3 y vectors, 3 shapes, 3 dtypes) and sequences longer than the bound are not covered, except one 3000-step run through the real capacity', MC, 'DESIGN.md 3 C19'),
}

NOT_YET = {}

CHECKS['C20'] = ('fault_enumeration', 'full support matrix backend{default,torch,jax,fortran} x solver{euler,heun,scipy,diffrax,rk4} x vectorize x delay kind{none,discrete,gamma,past()} through run, plus get_run_func and get_jacobian_func(sparse on/off): every cell outside the documented support table must raise before a result is returned; every single-fault mutant of a base model (each declared variable removed, each path component of each edge / output / input / update_var / node_values key misspelt in flat and hierarchical circuits, every reserved name, second output, cyclic operator graph, edge template with two outputs) must raise, inputs and update_var to a missing variable must at least warn',
                 'one base model; the quick tier builds only a slice of the Fortran cells', 'exhaustive fault enumeration (support matrix + all single-fault mutants) on the real code', 'DESIGN.md 3 C20')


def main():
    props = [json.loads(l) for l in open(os.path.join(ROOT, 'properties.jsonl'))]
    checks = []
    for p in props:
        pid = p['id']
        if pid not in CHECKS:
            continue
        cat, text, note, tech, ref = CHECKS[pid]
        checks.append({'property_id': pid, 'quick_cmd': f'./check {pid} --tier quick',
                       'thorough_cmd': f'./check {pid} --tier thorough',
                       'evidence_file': f'/verif/evidence/{pid}.json',
                       'replay_cmd_template': f'./check {pid} --replay {{path}}', 'engine': 'pyx',
                       'level_claimed': {'category': cat, 'text': text, 'design_ref': ref},
                       'level_note': note, 'technique': tech})
    na = [{'property_id': p['id'], 'reason': NOT_YET.get(p['id'], 'check not built yet in this revision (planned, see DESIGN.md section 3); not claimed')}
          for p in props if p['id'] not in CHECKS]
    doc = {'version': 1, 'setup_cmd': '/venv/bin/python -m pyx.selftest',
           'hooks': {'guard': 'PYRATES_VERIF',
                     'enable': 'no hooks are compiled in; checks import the working tree of /repo through the editable install of /venv',
                     'baseline_off_cmd': 'cd /repo && /venv/bin/python -m pytest -ra -q -p no:cacheprovider --timeout=900 --continue-on-collection-errors',
                     'source_commits': [], 'add_only': True},
           'engines': [{'name': 'pyx', 'path': '/verif/pyx', 'serves_properties': sorted(CHECKS),
                        'kind_free_text': 'bounded exhaustive explorer (stateless case enumeration + explicit-state history search) running the real PyRates code against an independent reference semantics'}],
           'checks': checks, 'not_applicable': na,
           'notes': 'fix: commits in /repo and open findings are listed in /verif/known_findings.json; see DESIGN.md section 6'}
    with open(os.path.join(ROOT, 'MANIFEST.json'), 'w') as f:
        json.dump(doc, f, indent=1)


if __name__ == '__main__':
    main()
