#!/usr/bin/env python3
"""Regenerates the data tables of DESIGN.md (sections 6.1, 6.2 and 9) from the committed data:
known_findings.json (fixed entries, open findings) and seeded/*/meta.json. The tables live between
<!-- BEGIN:<name> --> / <!-- END:<name> --> markers; everything else in DESIGN.md is hand-written."""
import glob
import json
import os
import re
import subprocess

HERE = os.path.dirname(os.path.dirname(os.path.abspath(__file__)))


def cell(s):
    return str(s).replace('|', '\\|').replace('\n', ' ')


def fixed_table(k):
    log = subprocess.run(['git', '-C', '/repo', 'log', '--reverse', '--format=%h'], capture_output=True, text=True).stdout.split()
    order = {h: i for i, h in enumerate(log)}
    rows = []
    for e in k['fixed']:
        m = re.match(r'fixed: property=(C\d+) ([0-9a-f]+) (.*)', e)
        rows.append((order.get(m.group(2), 10 ** 6), m.group(2), m.group(1), m.group(3)))
    out = ['| commit | found by | what failed |', '|---|---|---|']
    for _, h, p, txt in sorted(rows):
        out.append(f'| {h} | {p} | {cell(txt)} |')
    return '\n'.join(out)


def open_table(k):
    out = ['| id | property | what fails | why not repaired |', '|---|---|---|---|']
    for f in k['findings']:
        out.append(f"| {f['id']} | {f['property']} | {cell(f['title'])} — witness: {cell(f['witness'])} | "
                   f"{cell(f.get('why_not_repaired', ''))} |")
    return '\n'.join(out)


def seeds_table():
    out = ['| seed | breaks | file(s) | needs in order to manifest | reported by | history |', '|---|---|---|---|---|---|']
    for d in sorted(glob.glob(os.path.join(HERE, 'seeded', '*'))):
        mp = os.path.join(d, 'meta.json')
        if not os.path.exists(mp):
            continue
        m = json.load(open(mp))
        out.append(f"| {os.path.basename(d)} | {m['breaks_property']} | {', '.join(m['files_touched'])} | "
                   f"{cell(m['needs_to_manifest'])} | {', '.join(m['detected_by'])} | {cell(m.get('history', ''))} |")
    return '\n'.join(out)


def alphabets():
    """what every check currently enumerates: the `rule` and `bounds` each check writes into its evidence file"""
    import importlib
    import sys
    sys.path.insert(0, HERE)
    out = ['| check | tier | enumerated behaviours and oracle (as written into the evidence file) | bounds |', '|---|---|---|---|']
    for i in range(1, 21):
        cid = f'C{i:02d}'
        ev = {}
        for tier in ('quick', 'thorough'):
            p_ = os.path.join(HERE, 'evidence', f'{cid}.json')
            try:
                mod = importlib.import_module(f'pyx.props.{cid}')
                d = mod.describe(tier, 0)
                ev[tier] = (d.get('rule', ''), json.dumps(d.get('bounds', {})))
            except Exception:
                if os.path.exists(p_):
                    e = json.load(open(p_))
                    cov = e.get('coverage', {})
                    ev[tier] = (cov.get('rule', ''), json.dumps({k: cov[k] for k in ('depth_completed', 'ops') if k in cov}))
        if ev.get('quick') and ev.get('thorough') and ev['quick'][0] == ev['thorough'][0]:
            out.append(f"| {cid} | both | {cell(ev['quick'][0])} | quick {cell(ev['quick'][1])}; thorough {cell(ev['thorough'][1])} |")
        else:
            for tier in ('quick', 'thorough'):
                if tier in ev:
                    out.append(f"| {cid} | {tier} | {cell(ev[tier][0])} | {cell(ev[tier][1])} |")
    return '\n'.join(out)


def main():
    k = json.load(open(os.path.join(HERE, 'known_findings.json')))
    p = os.path.join(HERE, 'DESIGN.md')
    d = open(p).read()
    for name, body in (('fixed', fixed_table(k)), ('open', open_table(k)), ('seeds', seeds_table()),
                       ('alphabets', alphabets())):
        pat = re.compile(r'(<!-- BEGIN:%s -->\n).*?(\n<!-- END:%s -->)' % (name, name), re.S)
        if not pat.search(d):
            raise SystemExit(f'marker {name} missing in DESIGN.md')
        d = pat.sub(lambda m_: m_.group(1) + body + m_.group(2), d)
    open(p, 'w').write(d)


if __name__ == '__main__':
    main()
