#!/bin/bash
# usage: tools/confirm_seed.sh <dir with patch.diff, demo.py> <out.json>
# confirms in a scratch worktree: demo PASS without the patch, FAIL with it, and the 49 baseline tests still pass with it
d=$(readlink -f "$1"); out=$2
wt=$(mktemp -d /tmp/confwt_XXXX)
git -C /repo worktree add --detach -q "$wt" HEAD || exit 2
cd "$wt"
export PATH=$PATH PYTHONPATH="$wt"
timeout 600 /venv/bin/python "$d/demo.py" > "$wt/.demo0.log" 2>&1; rc0=$?
git apply "$d/patch.diff" || { echo '{"error": "patch does not apply"}' > "$out"; git -C /repo worktree remove --force "$wt"; exit 2; }
timeout 600 /venv/bin/python "$d/demo.py" > "$wt/.demo1.log" 2>&1; rc1=$?
/venv/bin/python -m pytest -q -p no:cacheprovider --timeout=900 --continue-on-collection-errors --junitxml="$wt/.junit.xml" > "$wt/.suite.log" 2>&1
/venv/bin/python - "$wt/.junit.xml" "$rc0" "$rc1" > "$out" <<'P'
import sys, json, xml.etree.ElementTree as ET
base=json.load(open('/root/.vp/BASELINE.json'))
ok=set()
for tc in ET.parse(sys.argv[1]).getroot().iter('testcase'):
    if not any(c.tag in ('failure','error','skipped') for c in tc): ok.add(f"{tc.get('classname')}::{tc.get('name')}")
missing=[n for n in base['stable_pass'] if n not in ok]
print(json.dumps({'demo_unpatched_rc': int(sys.argv[2]), 'demo_patched_rc': int(sys.argv[3]), 'baseline_passed': len(base['stable_pass'])-len(missing), 'baseline_missing': missing}))
P
cd /; git -C /repo worktree remove --force "$wt"
