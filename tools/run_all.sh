#!/bin/bash
# usage: tools/run_all.sh [tier]   -- runs every registered check, prints one line per check
cd "$(dirname "$0")/.."
tier=${1:-quick}
for c in C01 C02 C03 C04 C05 C06 C07 C08 C09 C10 C11 C12 C13 C14 C15 C16 C17 C18 C19 C20; do
  s=$(date +%s)
  out=$(./check $c --tier $tier 2>&1); rc=$?
  echo "$c rc=$rc t=$(( $(date +%s) - s ))s viol=$(echo "$out" | grep -c '^VIOLATION') :: $(echo "$out" | tail -1 | cut -c1-160)"
done
