#!/bin/bash
# usage: tools/eval_seeded.sh <patch.diff> <check ids...>
# applies the patch to a scratch worktree of /repo, runs the given checks against it (PYX_REPO), removes the worktree.
set -u
patch=$(readlink -f "$1"); shift
wt=$(mktemp -d /tmp/evalwt_XXXX)
git -C /repo worktree add --detach -q "$wt" HEAD || exit 2
if ! git -C "$wt" apply "$patch"; then echo "PATCH DOES NOT APPLY"; git -C /repo worktree remove --force "$wt"; exit 2; fi
cd /verif
for c in "$@"; do
  out=$(PYX_REPO="$wt" PYX_EVIDENCE_DIR="$wt/.ev" PYX_REPLAY_DIR="$wt/.rp" ./check "$c" --tier "${TIER:-quick}" 2>&1)
  nv=$(echo "$out" | grep -c '^VIOLATION')
  echo "== $c: violations_reported=$nv :: $(echo "$out" | tail -1)"
  echo "$out" | grep -A1 '^VIOLATION' | head -4 | cut -c1-400
done
git -C /repo worktree remove --force "$wt"
