#!/usr/bin/env python3
"""Re-evaluates every stored seed (seeded/<id>/patch.diff) against the current checks and rewrites `detected_by`,
`detection_cmd` and `evaluated` in its meta.json. usage: tools/refresh_seeds.py [-j N] [seed ids...]
Checks tried per seed: the property the seed breaks plus everything listed under detected_by / also_try."""
import concurrent.futures
import glob
import json
import os
import re
import subprocess
import sys

HERE = os.path.dirname(os.path.dirname(os.path.abspath(__file__)))


def head(repo):
    return subprocess.run(['git', '-C', repo, 'rev-parse', '--short', 'HEAD'], capture_output=True, text=True).stdout.strip()


def one(d):
    mp = os.path.join(d, 'meta.json')
    m = json.load(open(mp))
    checks = sorted(set([m['breaks_property']] + list(m.get('detected_by', [])) + list(m.get('also_try', []))))
    out = subprocess.run([os.path.join(HERE, 'tools', 'eval_seeded.sh'), os.path.join(d, 'patch.diff')] + checks,
                         capture_output=True, text=True).stdout
    if 'PATCH DOES NOT APPLY' in out:
        return os.path.basename(d), None, 'patch does not apply'
    det = {}
    for c, n, tail in re.findall(r'^== (C\d+): violations_reported=(\d+) :: (.*)$', out, re.M):
        det[c] = int(n)
    m['also_try'] = sorted(set(checks) - {m['breaks_property']})
    m['detected_by'] = sorted(c for c, n in det.items() if n > 0)
    m['detection_cmd'] = f"tools/eval_seeded.sh seeded/{os.path.basename(d)}/patch.diff " + ' '.join(m['detected_by'] or checks)
    m['evaluated'] = {'repo_head': head('/repo'), 'violations_reported': det, 'tier': 'quick'}
    json.dump(m, open(mp, 'w'), indent=1)
    return os.path.basename(d), m['detected_by'], det


def main():
    args = sys.argv[1:]
    j = 3
    if args[:1] == ['-j']:
        j = int(args[1])
        args = args[2:]
    dirs = sorted(glob.glob(os.path.join(HERE, 'seeded', '*')))
    if args:
        dirs = [d for d in dirs if os.path.basename(d) in args]
    dirs = [d for d in dirs if os.path.exists(os.path.join(d, 'meta.json'))]
    missed = []
    with concurrent.futures.ThreadPoolExecutor(j) as ex:
        for name, det, info in ex.map(one, dirs):
            print(name, det, info, flush=True)
            if not det:
                missed.append(name)
    print('NOT DETECTED:', missed)
    return 1 if missed else 0


if __name__ == '__main__':
    sys.exit(main())
