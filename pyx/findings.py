"""Known findings (DESIGN.md 2.7): committed file, never written at run time."""
import json
import os

ROOT = os.path.dirname(os.path.dirname(os.path.abspath(__file__)))


def load(prop):
    path = os.path.join(ROOT, 'known_findings.json')
    if not os.path.exists(path):
        return []
    with open(path) as f:
        doc = json.load(f)
    return [e for e in doc.get('findings', []) if e.get('property') == prop and e.get('status', 'open') == 'open']


def match(viol, findings):
    """A violation is attributed to a finding iff every key of finding['match'] equals the violation's
    signature entry (signatures are computed by the property module from the *case structure and the
    observed wrong behaviour*, see each module's `signature`)."""
    sig = viol.get('sig') or {}
    for f in findings:
        m = f.get('match') or {}
        if m and all(sig.get(k) == v for k, v in m.items()):
            return f
    return None
