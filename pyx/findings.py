"""Known findings (DESIGN.md 2.7): committed file, never written at run time."""
import json
import os

ROOT = os.path.dirname(os.path.dirname(os.path.abspath(__file__)))


def load(prop):
    path = os.path.join(ROOT, 'known_findings.json')
    if not os.path.exists(path):
        return []
    with open(path) as f:
        doc = json.load(f)
    return [e for e in doc.get('findings', []) if e.get('property') == prop and e.get('status', 'open') == 'open']


def match(viol, findings):
    """A violation is attributed to a finding iff the violation's signature (computed by the property module from
    the *case structure and the observed wrong behaviour*) satisfies every clause of finding['match']:
    kind_in / exc_in: membership; has_feature: structural feature present; any other key: equality."""
    sig = viol.get('sig') or {}
    for f in findings:
        m = f.get('match') or {}
        if not m:
            continue
        ok = True
        for k, v in m.items():
            if k == 'kind_in':
                ok = sig.get('kind') in v
            elif k == 'exc_in':
                ok = sig.get('exc') in v
            elif k == 'has_feature':
                ok = v in (sig.get('features') or [])
            elif k == 'frame_contains':
                ok = v in (sig.get('frame') or '')
            else:
                ok = sig.get(k) == v
            if not ok:
                break
        if ok:
            return f
    return None
