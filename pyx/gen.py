"""Deterministic enumerators of model specs (DESIGN.md 2.2). Simplest first."""
import itertools

# ---------------------------------------------------------------------------------------------
# operator library: every operator exercises one mechanism named in the anchors
# ---------------------------------------------------------------------------------------------
OPLIB = {
    # leaf state variable
    'lin': {'eqs': ["d/dt * x = -k*x"], 'vars': {'x': 'output(0.5)', 'k': 2.0}},
    # state + algebraic intermediate (used before it is defined)
    'sa': {'eqs': ["d/dt * x = -k*x + z", "z = c*x"],
           'vars': {'x': 'output(0.4)', 'k': 1.5, 'z': 'variable(0.0)', 'c': 0.3}},
    # output is an algebraic variable
    'ao': {'eqs': ["q' = -q + a*q^2", "m = g*tanh(q)"],
           'vars': {'q': 'variable(0.3)', 'm': 'output(0.0)', 'a': 0.25, 'g': 1.5}},
    # user names that look like generated names
    'xv': {'eqs': ["d/dt * x = -x + b*x_v1", "d/dt * x_v1 = -b*x_v1 + x"],
           'vars': {'x': 'output(0.2)', 'x_v1': 'variable(0.6)', 'b': 0.8}},
    # single-input target
    't1': {'eqs': ["v' = -v + u"], 'vars': {'v': 'output(0.1)', 'u': 'input(0.7)'}},
    # two-input targets, both declaration orders
    't2': {'eqs': ["d/dt * v = -a*v + u - w"],
           'vars': {'v': 'output(0.15)', 'a': 1.2, 'u': 'input(0.7)', 'w': 'input(0.2)'}},
    # inputs written directly next to `^` on either side (whole-identifier replacement when an input has several sources)
    't2p': {'eqs': ["d/dt * v = -a*v + u^2 - 2^w + u*w^3"],
            'vars': {'v': 'output(0.15)', 'a': 1.2, 'u': 'input(0.7)', 'w': 'input(0.2)'}},
    't2r': {'eqs': ["d/dt * v = -a*v + u - w"],
            'vars': {'v': 'output(0.15)', 'w': 'input(0.2)', 'a': 1.2, 'u': 'input(0.7)'}},
    # target whose state variable is called `weight`, input `u`
    'tw': {'eqs': ["d/dt * weight = -weight + 2*u"], 'vars': {'weight': 'output(0.35)', 'u': 'input(0.7)'}},
    # target with an input called u_in0 (collides with names generated for multiple sources)
    'tu': {'eqs': ["d/dt * v = -v + u_in0*h"], 'vars': {'v': 'output(0.12)', 'u_in0': 'input(0.45)', 'h': 1.1}},
    # same-node producers of a variable called u (algebraic and state)
    'pu': {'eqs': ["d/dt * y2 = -y2", "u = s*y2"],
           'vars': {'y2': 'variable(0.9)', 'u': 'output(0.0)', 's': 0.6}},
    'pu2': {'eqs': ["d/dt * u = -e*u"], 'vars': {'u': 'output(0.25)', 'e': 0.7}},
    # algebraic relay: input u -> output w
    'rl': {'eqs': ["w = f*u"], 'vars': {'w': 'output(0.0)', 'u': 'input(0.3)', 'f': 1.7}},
    # edge operators (algebraic): one input, and one input + extra source
    'e1': {'eqs': ["eo = ge*ei^2"], 'vars': {'eo': 'output(0.0)', 'ei': 'input(0.0)', 'ge': 0.5}},
    'e2': {'eqs': ["eo = ei*(1 - ep)"], 'vars': {'eo': 'output(0.0)', 'ei': 'input(0.0)', 'ep': 'input(0.0)'}},
}

# node templates: name -> ordered [op, overrides]
NODELIB = {
    'L': [['lin', {}]],
    'SA': [['sa', {}]],
    'AO': [['ao', {}]],
    'XV': [['xv', {}]],
    'T1': [['t1', {}]],
    'T2': [['t2', {}]],
    'T2R': [['t2r', {}]],
    'T2P': [['t2p', {}]],
    'PPT2P': [['pu', {}], ['pu2', {}], ['t2p', {}]],
    'TW': [['tw', {}]],
    'TU': [['tu', {}]],
    'LT': [['lin', {}], ['t1', {}]],            # source and target operator in one node
    'TL': [['t1', {}], ['lin', {}]],            # other declaration order
    'LS': [['lin', {}], ['sa', {}]],            # same variable name x in two operators of one node
    'PT': [['pu', {}], ['t1', {}]],             # same-node producer of u
    'TP': [['t1', {}], ['pu', {}]],
    'PPT2': [['pu', {}], ['pu2', {}], ['t2', {}]],   # u driven twice inside the node, w free
    'PPT2R': [['pu2', {}], ['pu', {}], ['t2r', {}]],
    'PRT2': [['pu', {}], ['rl', {}], ['t2', {}]],    # chain pu -> rl (u->w), both feed t2
    'LO': [['lin', {'k': 3.5, 'x': 0.8}]],      # per-node overrides
    'LTO': [['lin', {'k': 3.5, 'x': 0.8}], ['t1', {}]],   # two operators, only one of them overridden
    'TLO': [['t1', {'v': 0.45}], ['lin', {}]],
}
QUICK_NODES = ['L', 'SA', 'AO', 'XV', 'T1', 'T2', 'T2R', 'TW', 'TU', 'LT', 'LS', 'PT', 'PPT2', 'PRT2', 'LO']
SMALL_NODES = ['L', 'SA', 'T1', 'T2', 'LT', 'PPT2']

WEIGHTS = [2.0, 1.0, -0.5, 3.0, 0.25]


def _decl_type(d):
    s = str(d)
    for k in ('input', 'output', 'variable'):
        if s.startswith(k):
            return k
    return 'constant'


def node_sources(tpl, nodelib=NODELIB, oplib=OPLIB):
    """candidate source variables 'op/var' of a node template: every output and every other variable
    that has a defining equation (any variable may be an edge source)"""
    out = []
    for op, _ in nodelib[tpl]:
        lhs = set()
        for eq in oplib[op]['eqs']:
            l = eq.split('=')[0].replace('d/dt', '').replace('*', '').replace("'", '').strip()
            lhs.add(l)
        for v, d in oplib[op]['vars'].items():
            if _decl_type(d) == 'output' or (v in lhs and _decl_type(d) == 'variable'):
                out.append(f'{op}/{v}')
    return out


def node_targets(tpl, nodelib=NODELIB, oplib=OPLIB):
    out = []
    for op, _ in nodelib[tpl]:
        for v, d in oplib[op]['vars'].items():
            if _decl_type(d) == 'input':
                out.append(f'{op}/{v}')
    return out


def make_spec(labels_tpls, edges, share=True, name='net', edge_tpls=None):
    used_nodes = {t for _, t in labels_tpls}
    ops = set()
    for t in used_nodes:
        ops.update(o for o, _ in NODELIB[t])
    etp = {}
    for e in edges:
        if e[2]:
            etp[e[2]] = (edge_tpls or EDGELIB)[e[2]]
            ops.update(o for o, _ in etp[e[2]])
    return {'ops': {o: OPLIB[o] for o in sorted(ops)},
            'node_tpls': {t: NODELIB[t] for t in sorted(used_nodes)},
            'edge_tpls': etp,
            'circuit': {'name': name, 'nodes': {l: t for l, t in labels_tpls}, 'edges': [list(e) for e in edges]},
            'share': share}


EDGELIB = {'E1': [['e1', {}]], 'E2': [['e2', {}]]}
LABELS = ['a', 'b', 'cc', 'dd']


def flat_circuits(n_nodes, max_edges, node_names, with_self=True, max_per_pair=2):
    """all assignments of node templates to n labels x all edge multisets of size <= max_edges over the
    candidate (source variable, target input) pairs, weights drawn positionally from WEIGHTS"""
    for tpls in itertools.product(node_names, repeat=n_nodes):
        lt = list(zip(LABELS[:n_nodes], tpls))
        cands = []
        for ls, ts in lt:
            for lt_, tt in lt:
                if not with_self and ls == lt_:
                    continue
                for s in node_sources(ts):
                    for t in node_targets(tt):
                        if ls == lt_ and s.split('/')[0] == t.split('/')[0]:
                            continue  # an operator feeding itself through an edge: kept out (algebraic loops)
                        cands.append((f'{ls}/{s}', f'{lt_}/{t}'))
        for k in range(0, max_edges + 1):
            for combo in itertools.combinations_with_replacement(range(len(cands)), k):
                if any(combo.count(c) > max_per_pair for c in set(combo)):
                    continue
                edges = [[cands[c][0], cands[c][1], None, {'weight': WEIGHTS[i % len(WEIGHTS)]}]
                         for i, c in enumerate(combo)]
                yield lt, edges


def has_alg_loop(spec):
    """reject specs whose reference semantics has an algebraic cycle (not well-formed models)"""
    from .spec import refmodel
    from .refsem.model import Cycle
    m = refmodel(spec)
    try:
        m.field(m.y0())
    except Cycle:
        return True
    return False


def wrap_hier(spec, mode):
    """turn a flat 2-node spec into a hierarchical one.
    mode 'split': node a in circuit c1, node b in c2, all edges at the top level (cross-level paths)
    mode 'dup'  : the flat circuit becomes sub-circuit c1 and c2 = the same object; edges stay inside
    mode 'deep' : 'split' wrapped once more (depth 2)
    mode 'deepdup': 'dup' wrapped once more (edges two levels below the top)"""
    c = spec['circuit']
    s2 = dict(spec)
    labels = list(c['nodes'])
    if mode in ('dup', 'deepdup'):
        s2['circuit'] = {'name': 'top', 'circuits': {'c1': dict(c, name='sub'), 'c2': {'same_as': 'c1'}}, 'edges': []}
        if mode == 'deepdup':
            # the edges now live two levels below the top
            s2['circuit'] = {'name': 'top2', 'circuits': {'d1': s2['circuit']}, 'edges': []}
        return s2
    where = {l: ('c1' if i == 0 else 'c2') for i, l in enumerate(labels)}
    subs = {'c1': {'name': 'sub1', 'nodes': {}, 'edges': []}, 'c2': {'name': 'sub2', 'nodes': {}, 'edges': []}}
    for l, t in c['nodes'].items():
        subs[where[l]]['nodes'][l] = t
    top_edges = []
    for src, tgt, tpl, attrs in c['edges']:
        ls, lt = src.split('/')[0], tgt.split('/')[0]
        if where[ls] == where[lt]:
            subs[where[ls]]['edges'].append([src, tgt, tpl, attrs])
        else:
            top_edges.append([f'{where[ls]}/{src}', f'{where[lt]}/{tgt}', tpl, attrs])
    subs = {k: v for k, v in subs.items() if v['nodes']}
    top = {'name': 'top', 'circuits': subs, 'edges': top_edges}
    if mode == 'deep':
        top2_edges = []
        top = {'name': 'top2', 'circuits': {'d1': top}, 'edges': top2_edges}
    s2['circuit'] = top
    return s2
