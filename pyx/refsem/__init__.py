from .expr import evaluate, parse_expr, split_equation, names_in, FUNCS  # noqa
from .model import Model  # noqa
from . import solvers  # noqa


def selftest():
    from . import expr, model
    expr.selftest()
    model.selftest()
