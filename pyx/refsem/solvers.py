"""Fixed-step reference drivers over the dict-state vector field (12 lines each).

`t` passed to the field is the step counter k (sample k of an extrinsic input is used during step k, both
Heun stages included - the convention C08 states)."""


def euler(model, dt, steps, S0=None, P=None, record=None):
    S = dict(S0 or model.y0())
    rows = [dict(S)]
    for k in range(steps):
        d, _ = model.field(S, P, t=k)
        S = {p: S[p] + dt * d[p] for p in S}
        rows.append(dict(S))
    return rows


def heun(model, dt, steps, S0=None, P=None):
    S = dict(S0 or model.y0())
    rows = [dict(S)]
    for k in range(steps):
        d1, _ = model.field(S, P, t=k)
        Sp = {p: S[p] + dt * d1[p] for p in S}
        d2, _ = model.field(Sp, P, t=k)
        S = {p: S[p] + dt / 2 * (d1[p] + d2[p]) for p in S}
        rows.append(dict(S))
    return rows


def euler_delayed(model, dt, steps, S0=None, P=None):
    """Euler with discrete edge delays: an edge with D = round(delay/dt) >= 2 steps delivers, at step k, the value its
    source variable had at step k - D (0 before the simulation started); shorter delays are not modelled."""
    for p, lst in model.edge_src.items():
        for (w, s, attrs) in lst:
            d = (attrs or {}).get('delay')
            if d:
                attrs['_delay_steps'] = int(round(d / dt))
    S = dict(S0 or model.y0())
    rows = [dict(S)]
    past = []
    for k in range(steps):
        def delayed(path, D, k=k):
            return past[k - D][path] if k - D >= 0 else 0.0
        # values of this step (needed as history of later steps): evaluate once without delays to record sources
        d, vals = model.field(S, P, t=k, delayed=delayed)
        past.append(vals)
        S = {p: S[p] + dt * d[p] for p in S}
        rows.append(dict(S))
    return rows


def heun_delayed(model, dt, steps, S0=None, P=None):
    """Heun with discrete edge delays: both stages of step k read the value a delayed source had at step k - D (like
    both read input sample k); the source values recorded for later steps are those of the first stage."""
    for p, lst in model.edge_src.items():
        for (w, s, attrs) in lst:
            d = (attrs or {}).get('delay')
            if d:
                attrs['_delay_steps'] = int(round(d / dt))
    S = dict(S0 or model.y0())
    rows = [dict(S)]
    past = []
    for k in range(steps):
        def delayed(path, D, k=k):
            return past[k - D][path] if k - D >= 0 else 0.0
        d1, vals = model.field(S, P, t=k, delayed=delayed)
        past.append(vals)
        Sp = {p: S[p] + dt * d1[p] for p in S}
        d2, _ = model.field(Sp, P, t=k, delayed=delayed)
        S = {p: S[p] + dt / 2 * (d1[p] + d2[p]) for p in S}
        rows.append(dict(S))
    return rows
