"""Reference semantics of the PyRates equation language: Python's own `ast` + NumPy.

Independent of sympy and of every PyRates parser routine.
"""
import ast
import math
import re

import numpy as np


def _sigmoid(x):
    return 1.0 / (1.0 + np.exp(-x))


def _index(x, i):
    return np.asarray(x)[np.asarray(i) if not isinstance(i, (int, np.integer)) else i]


def _index_axis(x, idx=None, axis=0):
    x = np.asarray(x)
    if idx is None:
        return x
    return x[idx] if axis == 0 else x[:, idx]


FUNCS = {
    'sin': np.sin, 'cos': np.cos, 'tan': np.tan, 'tanh': np.tanh, 'sinh': np.sinh, 'cosh': np.cosh,
    'arctan': np.arctan, 'arcsin': np.arcsin, 'arccos': np.arccos, 'exp': np.exp, 'log': np.log,
    'sqrt': np.sqrt, 'absv': np.abs, 'sign': np.sign, 'sigmoid': _sigmoid,
    'maxi': np.maximum, 'mini': np.minimum, 'round': np.round, 'vsum': np.sum, 'mean': np.mean,
    'matvec': np.dot, 'matmul': np.dot, 'real': np.real, 'imag': np.imag, 'conj': np.conjugate,
    'no_op': lambda x: x, 'identity': lambda x: x,
    'index': _index,
    'index_range': lambda x, a, b: np.asarray(x)[int(a):int(b)],
    'index_2d': lambda x, a, b: np.asarray(x)[np.asarray(a), np.asarray(b)],
    'index_axis': _index_axis,
    'interp': lambda t, tt, yy: np.interp(t, tt, yy),
    'roll': np.roll,
}
CONSTS = {'pi': math.pi, 'E': math.e}

_cache = {}


def parse_expr(s):
    """rhs string -> python ast (with ^ as power)."""
    key = s
    if key not in _cache:
        src = s.strip().replace('^', '**')
        _cache[key] = ast.parse(src, mode='eval').body
    return _cache[key]


def names_in(s):
    """identifiers used as variables (not as called functions) in rhs string"""
    tree = parse_expr(s)
    called = {id(n.func) for n in ast.walk(tree) if isinstance(n, ast.Call)}
    return [n.id for n in ast.walk(tree) if isinstance(n, ast.Name) and id(n) not in called]


def evaluate(s, env, funcs=None):
    """Evaluate rhs string; env: name -> value or callable(name) -> value."""
    fn = dict(FUNCS)
    if funcs:
        fn.update(funcs)
    look = env if callable(env) else (lambda n: env[n])
    return _ev(parse_expr(s), look, fn)


def conditioning(s, env, rel=1e-13):
    """largest relative change of the value of `s` when every variable, pi, E and every non-integer literal is changed
    by a relative `rel` (alternating signs, both orientations); inf if a perturbed evaluation leaves the real domain.
    Used to reject strings whose floating-point value is not determined by the arithmetic they denote
    (sqrt(sin(pi)), cos(u*sinh(2.5^4)))."""
    tree = parse_expr(s)
    base = float(_ev(tree, lambda n: env[n] if n in env else CONSTS[n], dict(FUNCS)))
    worst = 0.0
    for sgn in (1.0, -1.0):
        counter = [0]

        def jit(v):
            counter[0] += 1
            return v * (1.0 + sgn * rel * (1 if counter[0] % 2 else -1))

        def look(n):
            return jit(env[n] if n in env else CONSTS[n])
        try:
            with np.errstate(all='ignore'):
                v = float(_ev(tree, look, dict(FUNCS), jit))
        except (ZeroDivisionError, OverflowError, ValueError, TypeError):
            return float('inf')
        if not math.isfinite(v):
            return float('inf')
        worst = max(worst, abs(v - base) / max(1.0, abs(base)))
    return worst


def _ev(n, look, fn, jit=None):
    v = _ev0(n, look, fn, jit)
    if jit is not None and isinstance(n, (ast.BinOp, ast.Call)) and isinstance(v, (float, np.floating)) \
            and math.isfinite(v) and v != int(v):
        v = jit(v)     # conditioning estimate: every intermediate result moves as well
    return v


def _ev0(n, look, fn, jit=None):
    if isinstance(n, ast.Constant):
        if jit is not None and isinstance(n.value, float) and n.value != int(n.value):
            return jit(n.value)
        return n.value
    if isinstance(n, ast.Name):
        if n.id in CONSTS:
            try:
                return look(n.id)
            except KeyError:
                return CONSTS[n.id]
        return look(n.id)
    if isinstance(n, ast.BinOp):
        a, b = _ev(n.left, look, fn, jit), _ev(n.right, look, fn, jit)
        op = type(n.op)
        if op is ast.Add:
            return a + b
        if op is ast.Sub:
            return a - b
        if op is ast.Mult:
            return a * b
        if op is ast.Div:
            if np.ndim(b) == 0 and abs(b) < 1e-9:
                raise ZeroDivisionError('ill-conditioned division')   # not a well-defined value: callers reject it
            return a / b
        if op is ast.Pow:
            # NumPy meaning: a negative real base with a fractional exponent is nan, not a complex number
            if isinstance(a, (int, float)) and not isinstance(a, bool):
                a = np.float64(a)
            if np.ndim(a) == 0 and np.ndim(b) == 0 and abs(a) < 1e-9 and np.real(b) < 0:
                raise ZeroDivisionError('zero to a negative power')
            return a ** b
        raise ValueError(f'unsupported operator {op.__name__}')
    if isinstance(n, ast.UnaryOp):
        v = _ev(n.operand, look, fn, jit)
        if isinstance(n.op, ast.USub):
            return -v
        if isinstance(n.op, ast.UAdd):
            return +v
        raise ValueError('unsupported unary')
    if isinstance(n, ast.Call):
        name = n.func.id
        if name == 'past':
            # past(x, tau): handled by the model through the special hook
            return fn['past'](n.args[0].id, _ev(n.args[1], look, fn, jit))
        if name not in fn and '__varcall__' in fn:
            # x(t - tau): value of variable x at the (absolute) time given by the argument
            return fn['__varcall__'](name, _ev(n.args[0], look, fn, jit))
        args = [_ev(a, look, fn, jit) for a in n.args]
        return fn[name](*args)
    if isinstance(n, ast.Subscript):
        v = _ev(n.value, look, fn, jit)
        return v[_ev(n.slice, look, fn)]
    if isinstance(n, ast.Tuple):
        return tuple(_ev(e, look, fn, jit) for e in n.elts)
    raise ValueError(f'unsupported syntax {type(n).__name__}')


_DE1 = re.compile(r"^\s*d\s*/\s*dt\s*\*?\s*([A-Za-z_][A-Za-z_0-9]*)\s*$")
_DE2 = re.compile(r"^\s*([A-Za-z_][A-Za-z_0-9]*)\s*'\s*$")
_ID = re.compile(r"^\s*([A-Za-z_][A-Za-z_0-9]*)\s*$")


def split_equation(eq):
    """-> (kind 'de'|'alg', lhs variable, rhs string)"""
    lhs, rhs = eq.split('=', 1)
    for rx, kind in ((_DE1, 'de'), (_DE2, 'de'), (_ID, 'alg')):
        m = rx.match(lhs)
        if m:
            return kind, m.group(1), rhs.strip()
    raise ValueError(f'cannot split equation {eq!r}')


def selftest():
    e = {'r': 0.5, 'rr': 2.0, 'x_v1': -3.0, 'weight': 4.0}
    assert evaluate('r + rr*2', e) == 4.5
    assert evaluate('-r^2', e) == -0.25
    assert evaluate('2^3^2', e) == 512
    assert evaluate('(r - x_v1)/weight', e) == 0.875
    assert abs(evaluate('sigmoid(0.0) + sin(pi/2)', e) - 1.5) < 1e-15
    assert abs(evaluate('E^1', e) - math.e) < 1e-15
    assert split_equation("d/dt * x = -x") == ('de', 'x', '-x')
    assert split_equation("x' = -x") == ('de', 'x', '-x')
    assert split_equation("z = c*x") == ('alg', 'z', 'c*x')
    assert names_in('sin(r) + rr*sin') == ['r', 'rr', 'sin']
    assert evaluate('index(v, 1) + vsum(v)', {'v': np.array([1., 2., 4.])}) == 9.0
    assert conditioning('r + rr*2.5', e) < 1e-12 and conditioning('cos(r*sinh(2.5^4))', e) > 1e-6
    assert conditioning('sqrt(sin(pi))', e) == float('inf') or conditioning('sqrt(sin(pi))', e) > 1e-9
