"""Reference semantics of a PyRates model spec (DESIGN.md 2.3): dict-state vector field.

The spec (see pyx/spec.py) is expanded into flat nodes; values are looked up by frontend path, so no
state layout exists here that could mirror a layout error of the implementation.
"""
import re

import numpy as np

from .expr import evaluate, names_in, split_equation


def parse_decl(d):
    """-> (vtype, value) for a python-API variable declaration"""
    if isinstance(d, dict):
        return d['vtype'], d.get('value', 0.0)
    if isinstance(d, bool):
        raise ValueError
    if isinstance(d, (int, float)):
        return 'constant', float(d)
    s = str(d).replace(' ', '')
    for key, vt in (('input', 'input'), ('output', 'output'), ('variable', 'variable')):
        if s.startswith(key):
            rest = s[len(key):]
            val = 0.0
            if rest.startswith('(') and rest.endswith(')'):
                inner = rest[1:-1]
                if inner and inner not in ('float',):
                    val = float(inner.split(',')[0])
            return vt, val
    return 'constant', float(s)


class Cycle(Exception):
    pass


class Model:
    """Flat reference model.

    nodes : {node_path: [(op_name, {var: value overrides})...]}  (ordered)
    ops   : {op_name: {'eqs': [...], 'vars': {...}}}
    edges : [(src 'node/op/var', tgt 'node/op/var', edge_tpl or None, attrs)]
    edge_tpls : {name: [(op_name, overrides)...]}
    """

    def __init__(self, ops, nodes, edges, edge_tpls=None, inputs=None):
        # inputs: {input variable path: [callable(t) -> value]} extrinsic inputs (added to the other sources)
        self.ext = {k: list(v) for k, v in (inputs or {}).items()}
        self.ops = ops
        self.nodes = nodes
        self.edges = [tuple(e) for e in edges]
        self.edge_tpls = edge_tpls or {}
        self.kind = {}      # path -> 'state'|'alg'|'input'|'const'
        self.rhs = {}       # path -> (scope, rhs string) for state (derivative) and alg
        self.init = {}      # path -> declared/overridden value
        self.node_ops = {}  # node path -> ordered op names
        self.outvar = {}    # 'node/op' -> output var name
        for npath, oplist in nodes.items():
            self._add_node(npath, oplist)
        # edge-template instances become pseudo nodes '__e<i>'
        self.edge_src = {}   # target input path -> [(weight, source path)]
        for i, (src, tgt, tpl, attrs) in enumerate(self.edges):
            attrs = dict(attrs or {})
            w = attrs.get('weight', 1.0)
            if tpl is None:
                self.edge_src.setdefault(tgt, []).append((w, src, attrs))
            else:
                en = f'__e{i}'
                oplist = []
                for op_name, ov in self.edge_tpls[tpl]:
                    ov = dict(ov)
                    for k, v in attrs.items():
                        # value overrides are addressed 'op/var'
                        if k.count('/') == 1 and not isinstance(v, str) and k.split('/')[0] == op_name:
                            ov[k.split('/')[1]] = v
                    oplist.append((op_name, ov))
                self._add_node(en, oplist)
                # bind edge inputs: explicit 'edge/op/var': 'source' | path ; default: the single free input
                bound = {}
                for k, v in attrs.items():
                    if k.count('/') == 2 and isinstance(v, str):
                        bound[f"{en}/{k.split('/', 1)[1]}"] = src if v == 'source' else v
                if not bound:
                    free = [p for p in self._free_inputs(en)]
                    assert len(free) == 1, free
                    bound[free[0]] = src
                for p, s in bound.items():
                    self.edge_src.setdefault(p, []).append((1.0, s, {}))
                out = self._edge_output(en)
                self.edge_src.setdefault(tgt, []).append((w, out, attrs))

    def _add_node(self, npath, oplist):
        self.node_ops[npath] = [o for o, _ in oplist]
        for op_name, ov in oplist:
            op = self.ops[op_name]
            scope = f'{npath}/{op_name}'
            lhs_kind = {}
            for eq in op['eqs']:
                kind, lhs, rhs = split_equation(eq)
                lhs_kind[lhs] = kind
                self.rhs[f'{scope}/{lhs}'] = (scope, rhs)
            for v, decl in op['vars'].items():
                vt, val = parse_decl(decl)
                if v in ov:
                    val = ov[v]
                p = f'{scope}/{v}'
                self.init[p] = val
                if vt == 'output':
                    self.outvar[scope] = v
                if v in lhs_kind:
                    self.kind[p] = 'state' if lhs_kind[v] == 'de' else 'alg'
                elif vt == 'input':
                    self.kind[p] = 'input'
                elif vt in ('variable', 'output'):
                    self.kind[p] = 'free'   # declared variable without defining equation: keeps its value
                else:
                    self.kind[p] = 'const'

    def _free_inputs(self, npath):
        outs = {self.outvar.get(f'{npath}/{o}') for o in self.node_ops[npath]}
        return [p for p, k in self.kind.items() if k == 'input' and p.startswith(npath + '/')
                and p.split('/')[-1] not in outs]

    def _edge_output(self, npath):
        ops = self.node_ops[npath]
        # output operator = the one whose output no other operator of the edge consumes
        consumed = set()
        for o in ops:
            for v, d in self.ops[o]['vars'].items():
                if parse_decl(d)[0] == 'input':
                    consumed.add(v)
        cand = [o for o in ops if self.outvar.get(f'{npath}/{o}') not in consumed]
        assert len(cand) == 1, cand
        return f'{npath}/{cand[0]}/{self.outvar[npath + "/" + cand[0]]}'

    # ------------------------------------------------------------------ queries
    def state_vars(self):
        return [p for p, k in self.kind.items() if k == 'state' and not p.startswith('__e')] + \
               [p for p, k in self.kind.items() if k == 'state' and p.startswith('__e')]

    def constants(self):
        return [p for p, k in self.kind.items() if k == 'const']

    def y0(self):
        return {p: self.init[p] for p in self.state_vars()}

    def p0(self):
        d = {p: self.init[p] for p in self.constants()}
        return d

    # ------------------------------------------------------------------ evaluation
    def field(self, S, P=None, t=0.0, weights=None, hist=None, funcs=None, delayed=None):
        """derivatives {state path: value} and all variable values, at state dict S, constants P"""
        P = dict(self.p0(), **(P or {}))
        memo = {}
        busy = set()

        def value(p):
            if p in memo:
                return memo[p]
            if p in busy:
                raise Cycle(p)
            busy.add(p)
            k = self.kind[p]
            if k == 'state':
                v = S[p]
            elif k == 'const':
                v = P[p]
            elif k == 'free':
                v = S.get(p, self.init[p])
            elif k == 'alg':
                scope, rhs = self.rhs[p]
                v = self._eval(scope, rhs, value, t, hist, funcs)
            else:  # input
                v = self._input(p, value, weights, t, delayed)
            busy.discard(p)
            memo[p] = v
            return v

        d = {}
        for p in self.state_vars():
            scope, rhs = self.rhs[p]
            d[p] = self._eval(scope, rhs, value, t, hist, funcs)
        vals = {}
        for p in self.kind:
            try:
                vals[p] = value(p)
            except Cycle:
                raise
        return d, vals

    def _eval(self, scope, rhs, value, t, hist, funcs):
        def look(name):
            p = f'{scope}/{name}'
            if p in self.kind:
                return value(p)
            if name == 't':
                return t
            raise KeyError(name)
        fn = dict(funcs or {})
        if hist is not None:
            fn['past'] = lambda name, tau: hist(t - tau)[f'{scope}/{name}']
            fn['__varcall__'] = lambda name, when: hist(when)[f'{scope}/{name}']
        return evaluate(rhs, look, fn)

    def sources_of(self, p):
        """(same-node producers, edges) of input variable p"""
        node, op, var = p.rsplit('/', 2)
        intra = []
        for o in self.node_ops[node]:
            if o != op and self.outvar.get(f'{node}/{o}') == var:
                intra.append(f'{node}/{o}/{var}')
        return intra, self.edge_src.get(p, [])

    def _input(self, p, value, weights=None, t=0.0, delayed=None):
        intra, edges = self.sources_of(p)
        ext = self.ext.get(p, [])
        if not intra and not edges and not ext:
            return self.init[p]
        tot = 0.0
        for f in ext:
            tot = tot + f(t)
        for s in intra:
            tot = tot + value(s)
        for i, (w, s, attrs) in enumerate(edges):
            if weights is not None and (p, i) in weights:
                w = weights[(p, i)]
            D = attrs.get('_delay_steps') if attrs else None
            if D and delayed is not None:
                tot = tot + w * delayed(s, D)
            else:
                tot = tot + w * value(s)
        return tot


def selftest():
    ops = {'so': {'eqs': ["d/dt * x = -k*x + z", "z = c*x"],
                  'vars': {'x': 'output(0.5)', 'k': 2.0, 'z': 'variable(0.0)', 'c': 0.3}},
           'to': {'eqs': ["v' = -v + u"], 'vars': {'v': 'output(0.1)', 'u': 'input(0.7)'}}}
    m = Model(ops, {'s': [('so', {})], 'g': [('to', {})]}, [('s/so/x', 'g/to/u', None, {'weight': 2.0})])
    d, vals = m.field(m.y0())
    assert abs(d['s/so/x'] - (-0.85)) < 1e-15 and abs(d['g/to/v'] - 0.9) < 1e-15, d
    m2 = Model(ops, {'g': [('to', {'u': 0.25})]}, [])
    d, _ = m2.field(m2.y0())
    assert abs(d['g/to/v'] - 0.15) < 1e-15
    # parallel edges add, two variables of one node add
    m3 = Model(ops, {'s': [('so', {})], 'g': [('to', {})]},
               [('s/so/x', 'g/to/u', None, {'weight': 2.0}), ('s/so/x', 'g/to/u', None, {'weight': 3.0}),
                ('s/so/z', 'g/to/u', None, {'weight': -1.0})])
    d, _ = m3.field(m3.y0())
    assert abs(d['g/to/v'] - (-0.1 + 5 * 0.5 - 0.15)) < 1e-15
