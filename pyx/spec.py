"""Model specifications (JSON-able) shared by the builders and the reference semantics.

spec = {'ops': {name: {'eqs': [...], 'vars': {...}}},
        'node_tpls': {name: [[opname, {var: value}], ...]},
        'edge_tpls': {name: [[opname, {var: value}], ...]},
        'circuit': {'name': str, 'nodes': {label: node_tpl} | 'circuits': {label: subcircuit | {'same_as': label}},
                    'edges': [[src, tgt, edge_tpl | None, {attrs}], ...]},
        'share': bool   # labels with the same node_tpl share one NodeTemplate python object
       }
"""
import copy


def flatten(spec):
    """-> (nodes {path: [(op, overrides)]}, edges [(src, tgt, tpl, attrs)]) with full paths"""
    nodes, edges = {}, []

    def rec(c, prefix, siblings):
        if 'same_as' in c:
            c = siblings[c['same_as']]
        for label, tpl in (c.get('nodes') or {}).items():
            nodes[prefix + label] = [(o, dict(ov)) for o, ov in spec['node_tpls'][tpl]]
        for e in c.get('edges') or []:
            src, tgt, tpl, attrs = e
            attrs = dict(attrs or {})
            for k, v in list(attrs.items()):
                if isinstance(v, str) and v != 'source':
                    attrs[k] = prefix + v
            edges.append((prefix + src, prefix + tgt, tpl, attrs))
        for label, sub in (c.get('circuits') or {}).items():
            rec(sub, prefix + label + '/', c['circuits'])

    rec(spec['circuit'], '', {})
    return nodes, edges


def refmodel(spec, **kw):
    from .refsem import Model
    nodes, edges = flatten(spec)
    return Model(spec['ops'], nodes, edges, edge_tpls=spec.get('edge_tpls') or {}, **kw)


def clone(spec):
    return copy.deepcopy(spec)
