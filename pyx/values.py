"""Probe alphabets (DESIGN.md 2.4): base valuation with pairwise distinct generic values, all single
deviations (quick) / pair deviations (thorough)."""
import itertools

BASE = [0.31, -0.47, 0.83, 1.27, -0.91, 0.59, -1.39, 0.23, 1.61, -0.67, 0.97, -0.29, 1.13, -1.07, 0.43, 0.71,
        -0.53, 1.49, -0.19, 0.37, 1.03, -0.79, 0.61, -1.21]
ALT = [0.6180339, -1.4142135]   # deviation alphabet (added to the base value)


def base_point(names, seed=0, positive=False):
    out = {}
    for i, n in enumerate(names):
        v = BASE[(i + 3 * seed) % len(BASE)] * (1.0 + 0.0625 * ((i + seed) // len(BASE)))
        out[n] = abs(v) if positive else v
    return out


def probe_points(state_names, const_names, const_values, seed=0, pairs=False, max_points=None):
    """yield (S, P) probe points. States get generic distinct values; constants keep their declared values at
    the base point (so that declared values are exercised) and are deviated one at a time."""
    S0 = base_point(state_names, seed)
    yield dict(S0), {}
    quantities = [('S', n) for n in state_names] + [('P', n) for n in const_names]
    n = 1
    for kind, name in quantities:
        for a in ALT:
            S, P = dict(S0), {}
            if kind == 'S':
                S[name] = S0[name] + a
            else:
                P[name] = const_values[name] + a
            yield S, P
            n += 1
            if max_points and n >= max_points:
                return
    if pairs:
        for (k1, n1), (k2, n2) in itertools.combinations(quantities, 2):
            S, P = dict(S0), {}
            for kind, name, a in ((k1, n1, ALT[0]), (k2, n2, ALT[1])):
                if kind == 'S':
                    S[name] = S0[name] + a
                else:
                    P[name] = const_values[name] + a
            yield S, P
            n += 1
            if max_points and n >= max_points:
                return
