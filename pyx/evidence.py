import json
import os
import time

ROOT = os.path.dirname(os.path.dirname(os.path.abspath(__file__)))


class Evidence:
    def __init__(self, prop, level, tier, seed):
        self.prop, self.level, self.tier, self.seed = prop, level, tier, seed
        self.t0 = time.time()
        self.cov = {'evaluations': 0, 'distinct_nontrivial': 0, 'rule': '', 'samples': [], 'exhaustive': False}
        self.assumptions = []
        self.violations = 0
        self.outcomes = {}
        self._nontrivial = set()
        self.nt_override = None

    def count(self, key, n=1):
        self.cov[key] = self.cov.get(key, 0) + n

    def outcome(self, key):
        self.outcomes[key] = self.outcomes.get(key, 0) + 1

    def nontrivial(self, key):
        self._nontrivial.add(key)

    def sample(self, s, cap=5):
        if len(self.cov['samples']) < cap:
            self.cov['samples'].append(s)

    def write(self):
        self.cov['distinct_nontrivial'] = len(self._nontrivial) if self.nt_override is None else self.nt_override
        self.cov['distinct_outcomes'] = len(self.outcomes)
        top = sorted(self.outcomes.items(), key=lambda kv: -kv[1])[:12]
        self.cov['outcome_histogram_top'] = {str(k): v for k, v in top}
        doc = {'property_id': self.prop, 'tier': self.tier, 'seed': self.seed, 'level': self.level,
               'coverage': self.cov, 'assumptions': self.assumptions,
               'wall_s': round(time.time() - self.t0, 2), 'violations': self.violations}
        # (the mutation campaign redirects its output so that committed evidence always comes from /repo itself)
        path = os.path.join(os.environ.get('PYX_EVIDENCE_DIR') or os.path.join(ROOT, 'evidence'), f'{self.prop}.json')
        os.makedirs(os.path.dirname(path), exist_ok=True)
        tmp = path + '.tmp'
        with open(tmp, 'w') as f:
            json.dump(doc, f, indent=1, default=_default)
        os.replace(tmp, path)
        return path


def _default(o):
    if hasattr(o, 'tolist'):
        return o.tolist()
    if isinstance(o, (set, tuple)):
        return list(o)
    if isinstance(o, complex):
        return [o.real, o.imag]
    return str(o)
