import argparse
import hashlib
import importlib
import json
import os
import sys
import time

from . import evidence, findings, pool

ROOT = os.path.dirname(os.path.dirname(os.path.abspath(__file__)))


def case_hash(case):
    return hashlib.sha256(json.dumps(case, sort_keys=True, default=evidence._default).encode()).hexdigest()[:16]


def write_replay(prop, case, viol):
    d = os.path.join(os.environ.get('PYX_REPLAY_DIR') or os.path.join(ROOT, 'replays'), prop)
    os.makedirs(d, exist_ok=True)
    path = os.path.join(d, case_hash(case) + '.json')
    with open(path, 'w') as f:
        json.dump({'property': prop, 'case': case, 'violation': viol}, f, indent=1, default=evidence._default)
    return path


def main(argv=None):
    ap = argparse.ArgumentParser()
    ap.add_argument('prop')
    ap.add_argument('--tier', default=os.environ.get('VERIF_TIER', 'quick'))
    ap.add_argument('--replay')
    ap.add_argument('--limit', type=int, default=0)
    a = ap.parse_args(argv)
    os.environ.setdefault('PYTHONHASHSEED', '0')
    if os.environ.get('PYX_REPO'):      # mutation campaign only: explore a scratch tree instead of /repo
        sys.path.insert(0, os.environ['PYX_REPO'])
    seed = int(os.environ.get('VERIF_SEED', '0') or 0)
    tier = a.tier if a.tier in ('quick', 'thorough') else 'quick'
    mod = importlib.import_module(f'pyx.props.{a.prop}')

    if a.replay:
        with open(a.replay) as f:
            doc = json.load(f)
        res = pool.run_inline(a.prop, doc['case'], backends=getattr(mod, 'BACKENDS', ()),
                              x64=getattr(mod, 'X64', None))
        print(json.dumps({k: v for k, v in res.items() if k != 'trace'}, indent=1, default=evidence._default))
        if not res.get('ok'):
            known = findings.match(res.get('viol') or {}, findings.load(a.prop))
            if known:
                print(f"KNOWN-FINDING: property={a.prop} {known['title']}")
                return 0
            print(f"VIOLATION property={a.prop} replay={a.replay}")
            return 1
        return 0

    ev = evidence.Evidence(a.prop, mod.LEVEL, tier, seed)
    if hasattr(mod, 'main'):
        # property module drives its own exploration (explicit-state searches)
        rc = mod.main(ev, tier, seed)
        ev.write()
        return rc
    cases = list(mod.cases(tier, seed))
    if a.limit:
        cases = cases[:a.limit]
    known = findings.load(a.prop)
    known_hits = {}
    viols = []
    t0 = time.time()
    n_done = 0
    deadline = getattr(mod, 'DEADLINE', {}).get(tier)
    capped = False
    budget = getattr(mod, 'CASE_BUDGET', 180)
    timed_out = []

    def results():
        # a case that exceeds its time budget is run once more, alone-ish and with six times the budget, before it
        # counts: on a loaded machine an f2py build or a large enumeration step can be slow without being wrong
        for case, res in pool.run(a.prop, cases, backends=getattr(mod, 'BACKENDS', ()), budget=budget,
                                  x64=getattr(mod, 'X64', None), chunksize=getattr(mod, 'CHUNK', 1)):
            if not res.get('ok') and (res.get('viol') or {}).get('kind') == 'timeout':
                timed_out.append(case)
            else:
                yield case, res
        if timed_out:
            ev.cov['cases_retried_after_timeout'] = len(timed_out)
            yield from pool.run(a.prop, timed_out, backends=getattr(mod, 'BACKENDS', ()), budget=6 * budget,
                                x64=getattr(mod, 'X64', None), nproc=4)

    for case, res in results():
        n_done += 1
        ev.count('evaluations', res.get('evals', 1))
        ev.count('traces_validated_against_impl', 1)
        for k in ('states', 'transitions'):
            if k in res:
                ev.count(k, res[k])
        if res.get('nontrivial'):
            ev.nontrivial(res.get('nt_key', case_hash(case)))
        if 'outcome' in res:
            ev.outcome(res['outcome'])
        if res.get('rejected'):
            ev.count('rejected', 1)
        if n_done % max(1, len(cases) // 4) == 1:
            ev.sample({'case': case, 'observed': res.get('observed')})
        if not res.get('ok'):
            v = res.get('viol') or {}
            hit = findings.match(v, known) if v.get('kind') not in ('harness_error', 'timeout') else None
            if hit:
                known_hits.setdefault(hit['id'], [hit, 0, case])
                known_hits[hit['id']][1] += 1
            else:
                viols.append((case, v))
    ev.cov['cases'] = len(cases)
    ev.cov['cases_completed'] = n_done
    ev.cov['exhaustive'] = (n_done == len(cases)) and not capped and not a.limit
    if hasattr(mod, 'describe'):
        ev.cov.update(mod.describe(tier, seed))
    ev.cov['known_finding_cases'] = {k: v[1] for k, v in known_hits.items()}
    ev.violations = len(viols)
    ev.write()
    for fid, (hit, n, case) in sorted(known_hits.items()):
        print(f"KNOWN-FINDING: property={a.prop} {hit['title']} [{fid}; {n} cases in this run]")
    shown = 0
    for case, v in viols:
        path = write_replay(a.prop, case, v)
        if shown < 25:
            print(f"VIOLATION property={a.prop} replay={path}")
            print('   ', json.dumps({k: v[k] for k in v if k != 'trace'}, default=evidence._default)[:600])
        shown += 1
    print(f"[{a.prop}] tier={tier} seed={seed} cases={n_done}/{len(cases)} evaluations={ev.cov['evaluations']} "
          f"nontrivial={ev.cov['distinct_nontrivial']} outcomes={ev.cov.get('distinct_outcomes')} "
          f"violations={len(viols)} known={sum(v[1] for v in known_hits.values())} wall={time.time()-t0:.1f}s")
    return 1 if viols else 0


if __name__ == '__main__':
    sys.exit(main())
