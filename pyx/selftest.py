"""setup_cmd: checks that the tool chain the checks need is present and that the reference semantics
agrees with hand-computed values."""
import sys


def main():
    import numpy, sympy, pandas, networkx  # noqa
    import pyrates  # noqa
    from pyx import isolate
    isolate.eager_import(())
    isolate.snapshot()
    assert any('OperatorTemplate.cache' in k for k in isolate.snapshot_keys()), isolate.snapshot_keys()
    try:
        from pyx import refsem
        refsem.selftest()
    except ImportError:
        pass
    print('pyx selftest ok;', len(isolate.snapshot_keys()), 'global containers tracked')


if __name__ == '__main__':
    sys.exit(main())
