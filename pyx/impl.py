"""Adapters around the real implementation: compile a template and evaluate its vector field at
dict-valued probe points, addressing state and parameters by frontend path (the contract of C01)."""
import numpy as np


def to_np(x):
    if hasattr(x, 'detach'):
        x = x.detach().cpu().numpy()
    return np.asarray(x)


class Compiled:
    def __init__(self, circ, func, args, names, svm, cfg):
        self.circ, self.func, self.args, self.names, self.svm, self.cfg = circ, func, args, names, svm, cfg
        self.backend = cfg.get('backend', 'default')
        self.n = int(np.asarray(to_np(args[1])).size)
        self.has_hist = len(names) > 2 and names[2] == 'hist'
        self.inplace = cfg.get('inplace_vectorfield', True)
        self.labels = dict(getattr(circ, '_vectorization_labels', {}) or {})
        self.vidx = dict(getattr(circ, '_vectorization_indices', {}) or {})
        self.labels_hint = {}

    # -- addressing ---------------------------------------------------------------------------
    def relabel(self, p):
        return self.circ._relabel_var(p, self.labels)

    def _vec_index(self, p):
        idx = self.vidx.get(p)
        if idx is None:
            return None
        idx = list(np.atleast_1d(idx))
        return [int(i) for i in idx]

    def set_merge_hint(self, groups):
        """groups: list of lists of frontend paths that the caller knows to be merged into one vector in this order
        (needed when get_run_func(inputs=...) compiled an internal copy, so that the template object the caller
        holds carries no vectorization bookkeeping)"""
        for g in groups:
            for i, p in enumerate(g):
                if not self.vidx:
                    pass
                self.labels_hint[p] = (g[0], i)

    def position(self, p):
        """absolute position(s) of frontend state variable p in y -> list[int]"""
        if p not in self.svm and p in self.labels_hint:
            first, i = self.labels_hint[p]
            rng = self.svm[first]
            return [int(rng[0]) + i] if isinstance(rng, (tuple, list)) else [int(rng)]
        if p in self.svm and p in self.labels_hint and isinstance(self.svm[p], (tuple, list)) and not self.vidx:
            return [int(self.svm[p][0]) + self.labels_hint[p][1]]
        key = p if p in self.svm else self.relabel(p)
        if key not in self.svm:
            raise KeyError(p)
        rng = self.svm[key]
        if isinstance(rng, (tuple, list)):
            lo, hi = int(rng[0]), int(rng[1])
            vi = self._vec_index(p)
            if vi is None:
                return list(range(lo, hi))
            if hi - lo == 1 and vi == [0]:
                return [lo]
            return [lo + i for i in vi]
        return [int(rng)]

    def arg_slot(self, p):
        """(arg index, element index or None) of frontend constant p, or None if it is not an argument"""
        key = p if p in self.names else self.relabel(p)
        if key not in self.names:
            return None
        ai = self.names.index(key)
        val = to_np(self.args[ai])
        vi = self._vec_index(p)
        if val.ndim == 0 or val.size == 1 or vi is None:
            return ai, None
        return ai, vi[0] if len(vi) == 1 else vi

    def arg_value(self, p):
        slot = self.arg_slot(p)
        if slot is None:
            return None
        ai, ei = slot
        val = to_np(self.args[ai])
        if ei is None:
            return val.reshape(-1)[0] if val.size == 1 else val
        return val[ei]

    def y0(self):
        return to_np(self.args[1]).copy()

    # -- evaluation -----------------------------------------------------------------------------
    def _conv(self, ref, val):
        """convert val to the container type of ref"""
        if hasattr(ref, 'detach'):
            import torch
            return torch.as_tensor(np.asarray(val), dtype=ref.dtype)
        if type(ref).__module__.startswith('jax'):
            import jax.numpy as jnp
            return jnp.asarray(val, dtype=ref.dtype)
        r = np.asarray(ref)
        return np.asarray(val, dtype=r.dtype).reshape(r.shape) if np.asarray(val).size == r.size else np.asarray(val, dtype=r.dtype)

    def call(self, y, t=None, params=None, hist=None):
        """evaluate the compiled function at state vector y (np array), optional {arg index: array}"""
        args = list(self.args)
        if t is not None:
            # fixed-step convention: t is a step counter that starts at the returned args[0] (0, or 1 for the
            # 1-based Fortran backend)
            if self.cfg.get('solver', 'euler') in ('euler', 'heun') and not self.cfg.get('adaptive'):
                t = t + int(np.asarray(to_np(self.args[0])).reshape(-1)[0])
            args[0] = self._conv(self.args[0], t)
        args[1] = self._conv(self.args[1], y)
        for ai, v in (params or {}).items():
            args[ai] = self._conv(self.args[ai], v)
        off = 2
        if self.has_hist:
            if hist is not None:
                args[2] = hist
            off = 3
        if self.inplace and self.backend in ('default', 'torch', 'fortran'):
            buf = to_np(self.args[off]).copy() * 0
            args[off] = self._conv(self.args[off], buf)
        out = self.func(*args)
        if out is None:
            out = args[off]
        return to_np(out).copy()

    def field(self, S, P=None, t=None, state_paths=None):
        """dict-state evaluation: S {state path: value}, P {const path: value} -> {state path: derivative}"""
        y = self.y0().astype(complex if np.iscomplexobj(self.y0()) else float)
        for p, v in S.items():
            for pos in self.position(p):
                y[pos] = v
        params = {}
        for p, v in (P or {}).items():
            slot = self.arg_slot(p)
            if slot is None:
                raise KeyError(f'constant {p} is not an argument of the compiled function')
            ai, ei = slot
            cur = params.get(ai)
            if cur is None:
                cur = to_np(self.args[ai]).astype(float).copy()
            if ei is None:
                cur = np.full_like(cur, v) if cur.ndim else np.asarray(float(v))
            else:
                cur[ei] = v
            params[ai] = cur
        dy = self.call(y, t=t, params=params)
        out = {}
        for p in (state_paths or S):
            pos = self.position(p)
            out[p] = dy[pos[0]] if len(pos) == 1 else dy[pos]
        return out


def compile_field(circ, cfg, inputs=None, func_name='vf', **extra):
    kw = dict(step_size=cfg.get('dt', 1e-3), backend=cfg.get('backend', 'default'),
              vectorize=cfg.get('vectorize', False), verbose=False, clear=False,
              float_precision=cfg.get('float_precision', 'float64'))
    if 'in_place' in cfg:
        kw['in_place'] = cfg['in_place']
    if not cfg.get('inplace_vectorfield', True):
        kw['inplace_vectorfield'] = False
    if cfg.get('solver'):
        kw['solver'] = cfg['solver']
    if cfg.get('file_name'):
        kw['file_name'] = cfg['file_name']
    if 'matrix_sparseness' in cfg:
        kw['matrix_sparseness'] = cfg['matrix_sparseness']
    kw.update(extra)
    if inputs:
        kw['inputs'] = inputs
    func, args, names, svm = circ.get_run_func(func_name, **kw)
    return Compiled(circ, func, args, tuple(names), dict(svm), cfg)
