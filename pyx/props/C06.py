"""C06 - a variable path addresses the same variable everywhere (outputs of run)."""
import hashlib
import itertools

import numpy as np

LEVEL = 'exploration'
BACKENDS = ()
CHUNK = 4
DT = 0.125
STEPS = 6

K = {'n1': (0.5, 1.0), 'n2': (1.5, 0.7), 'n3': (2.5, 0.4), 'n4': (3.5, 0.25)}   # node -> (rate, initial value)
OPS = {'po': {'eqs': ["d/dt * x = -k*x"], 'vars': {'x': 'output(1.0)', 'k': 1.0}},
       'qo': {'eqs': ["d/dt * x = -k*x + 0*g"], 'vars': {'x': 'output(1.0)', 'k': 1.0, 'g': 0.0}}}


def make(order, depth, types):
    """nodes in declaration `order`; types: node -> op; depth 0 flat, 1: c1 holds the first half / c2 the rest,
    2: one more wrapper d1"""
    tpls = {}
    for n in order:
        k, x0 = K[n]
        tpls[f'N{n}'] = [[types[n], {'k': k, 'x': x0}]]
    if depth == 0:
        circuit = {'name': 'net', 'nodes': {n: f'N{n}' for n in order}, 'edges': []}
        paths = {n: n for n in order}
    else:
        h = (len(order) + 1) // 2
        c1, c2 = order[:h], order[h:]
        subs = {'c1': {'name': 's1', 'nodes': {n: f'N{n}' for n in c1}, 'edges': []}}
        if c2:
            subs['c2'] = {'name': 's2', 'nodes': {n: f'N{n}' for n in c2}, 'edges': []}
        circuit = {'name': 'top', 'circuits': subs, 'edges': []}
        paths = {n: ('c1/' if n in c1 else 'c2/') + n for n in order}
        if depth == 2:
            circuit = {'name': 'top2', 'circuits': {'d1': circuit}, 'edges': []}
            paths = {n: 'd1/' + p for n, p in paths.items()}
        if depth == 3:
            # two branches that use the same inner circuit label: d1/c1/<first half>, d2/c1/<rest>
            circuit = {'name': 'top3', 'edges': [],
                       'circuits': {'d1': {'name': 'b1', 'circuits': {'c1': subs['c1']}, 'edges': []},
                                    'd2': {'name': 'b2', 'circuits': {'c1': dict(subs.get('c2') or subs['c1'], name='s2')},
                                           'edges': []}}}
            paths = {n: ('d1/c1/' if n in c1 else 'd2/c1/') + n for n in order}
    spec = {'ops': OPS, 'node_tpls': tpls, 'edge_tpls': {}, 'share': True, 'circuit': circuit}
    return spec, paths


def requests(order, paths, types, depth):
    """(tag, outputs object, expected {column label -> node}) """
    out = []
    po_nodes = [n for n in order if types[n] == 'po']
    first, last = order[0], order[-1]
    p = lambda n: f'{paths[n]}/{types[n]}/x'
    depth = min(depth, 2)
    lvl = ['all'] * (depth + 1)
    allpath = '/'.join(lvl) + '/po/x'
    out.append(('dict_single_first', {'o': p(first)}, {'o': first}))
    out.append(('dict_single_last', {'o': p(last)}, {'o': last}))
    multi = {tuple(['o'] + paths[n].split('/') + ['po/x']): n for n in po_nodes}
    out.append(('dict_all', {'o': allpath}, multi if len(po_nodes) > 1 else {'o': po_nodes[0]}))
    if len(order) >= 2:
        out.append(('dict_two_single', {'a': p(last), 'b': p(first)}, {'a': last, 'b': first}))
        out.append(('list_two', [p(last), p(first)], {p(last): last, p(first): first}))
    out.append(('list_single_last', [p(last)], {p(last): last}))
    out.append(('list_all', [allpath], {f'{paths[n]}/po/x': n for n in po_nodes}))
    if len(po_nodes) > 1:
        e = {tuple(['allx'] + paths[n].split('/') + ['po/x']): n for n in po_nodes}
        e['one'] = po_nodes[-1]
        out.append(('dict_single_and_all', {'one': p(po_nodes[-1]), 'allx': allpath}, e))
    if depth >= 1:
        sub = [n for n in po_nodes if paths[n].split('/')[-2] == 'c1']
        pre = 'd1/' if depth == 2 else ''
        if any(p_.startswith('d2/') for p_ in paths.values()):
            sub, pre = [n for n in po_nodes if paths[n].startswith('d1/c1/')], 'd1/'
        if len(sub) > 1:
            out.append(('dict_sub_all', {'o': f'{pre}c1/all/po/x'},
                        {tuple(['o'] + paths[n].split('/') + ['po/x']): n for n in sub}))
        elif len(sub) == 1:
            out.append(('dict_sub_all', {'o': f'{pre}c1/all/po/x'}, {'o': sub[0]}))
    return out


def cases(tier, seed):
    out = []
    Ns = (2, 3) if tier == 'quick' else (2, 3, 4)
    for N in Ns:
        names = [f'n{i + 1}' for i in range(N)]
        for order in itertools.permutations(names):
            for depth in ((0, 1, 2, 3) if tier != 'quick' else ((0, 1, 2, 3) if N == 3 else (0, 1))):
                for tmix in ('same', 'mixed', 'mixed_generic'):
                    if tmix != 'same' and N < 3:
                        continue
                    types = {n: ('qo' if (tmix != 'same' and n == 'n2') else 'po') for n in names}
                    spec, paths = make(list(order), depth, types)
                    if tmix == 'mixed_generic':
                        # every node template carries the same generic name although their operators differ
                        spec['tpl_names'] = {t: 'pop' for t in spec['node_tpls']}
                    for tag, outs, exp in requests(list(order), paths, types, depth):
                        for vec in (False, True):
                            out.append({'spec': spec, 'paths': paths, 'types': types, 'tag': tag, 'outputs': outs,
                                        'expected': [[list(k) if isinstance(k, tuple) else k, v] for k, v in exp.items()],
                                        'vectorize': vec, 'order': list(order)})
    # the same wildcard as input target and as output: column i of an (N, n) input reaches the node that output column i
    # shows (C08's integrator circuits, nodes declared against the sorted order of their labels)
    from . import C08
    io = [dict(c, delegate='C08') for c in C08.cases('quick', seed)
          if c['backend'] == 'default' and c['solver'] == 'euler' and not c.get('sub') and c['vectorize']
          and any(k == 'Nn' for _, k in C08.SELECTIONS[c['struct']][c['sel']])]
    return out + gvp_cases(tier) + io


def gvp_cases(tier):
    """get_variable_positions after get_run_func: the returned index must address the variable in the state vector"""
    out = []
    for N in (2, 3):
        names = [f'n{i + 1}' for i in range(N)]
        for order in itertools.permutations(names):
            tpls = {}
            for i, n in enumerate(order):
                k, x0 = K[n]
                # two operators that both call their state variable x (backend labels x, x_v1, ...)
                tpls[f'N{n}'] = [['po', {'k': k, 'x': x0}], ['qo', {'k': k + 0.25, 'x': x0 + 0.03}]]
            spec = {'ops': OPS, 'node_tpls': tpls, 'edge_tpls': {}, 'share': True,
                    'circuit': {'name': 'net', 'nodes': {n: f'N{n}' for n in order}, 'edges': []}}
            for vec in (False, True):
                out.append({'gvp': True, 'spec': spec, 'order': list(order), 'vectorize': vec, 'tag': 'gvp'})
    return out


def run_gvp(case):
    from .. import build, impl
    res = {'evals': 0, 'nontrivial': True}
    sig = {'features': ['same_variable_name_in_two_operators'], 'tag': 'gvp', 'vectorize': case['vectorize']}
    circ = build.build_py(case['spec'])
    try:
        C = impl.compile_field(circ, {'vectorize': case['vectorize']})
        y0 = C.y0()
        wrong = {}
        for n in case['order']:
            for op, d in (('po', 0.0), ('qo', 0.03)):
                p = f'{n}/{op}/x'
                om, ov = circ.get_variable_positions({'q': p})
                idx = int(np.atleast_1d(om['q'])[0])
                exp = K[n][1] + d
                res['evals'] += 1
                if idx >= len(y0) or abs(float(y0[idx]) - exp) > 1e-12:
                    wrong[p] = [idx, float(y0[idx]) if idx < len(y0) else None, exp]
    except Exception as e:
        sig['exc'] = type(e).__name__
        res['viol'] = dict(kind='raises', sig=dict(sig, kind='raises'), detail=f'{type(e).__name__}: {e}'[:300])
        res['ok'] = False
        return res
    if wrong:
        res['viol'] = dict(kind='position_addresses_other_variable', sig=dict(sig, kind='position_addresses_other_variable'),
                           wrong=wrong, svm=str(C.svm))
        res['ok'] = False
        return res
    res['outcome'] = 'gvp_ok'
    res['ok'] = True
    return res


def describe(tier, seed):
    return {'rule': 'circuits of 2-3 (thorough 4) decaying nodes with pairwise different rate and initial value (every '
                    'trajectory unique, closed-form euler iterates), hierarchy depth 0-2 plus two branches with equal inner labels (quick: for 3 nodes; depth 0-1 for 2), ALL permutations of the node '
                    'declaration order, a second node type that breaks the vectorization group (with unique and with one generic template name); every output request form '
                    '(dict/list, single, wildcard at each level, several keys, single+wildcard mixed) x vectorize; each '
                    'DataFrame column must hold the trajectory of exactly the node named by its label and the set of columns '
                    'must equal the set of addressed variables; non-trivial = all',
            'bounds': {'nodes': 3 if tier == 'quick' else 4, 'depth': 1 if tier == 'quick' else 2}}


def closed(n):
    k, x0 = K[n]
    return x0 * (1 - k * DT) ** np.arange(STEPS)


def which_node(col):
    for n in K:
        if np.max(np.abs(col - closed(n))) < 1e-9:
            return n
    return None


def run_case(case):
    from .. import build
    if case.get('gvp'):
        return run_gvp(case)
    if case.get('delegate') == 'C08':
        from . import C08
        return C08.run_case(case)
    res = {'evals': 0, 'nontrivial': True}
    feats = []
    if case['tag'] == 'dict_single_and_all':
        feats.append('single_and_wildcard_keys_mixed')
    if case['tag'].startswith('list') and case['vectorize']:
        feats.append('list_outputs_vectorized')
    sig = {'features': feats, 'tag': case['tag'], 'vectorize': case['vectorize']}

    def viol(kind, **kw):
        res['viol'] = dict(kind=kind, sig=dict(sig, kind=kind), **kw)
        res['ok'] = False
        return res
    outs = case['outputs']
    try:
        circ = build.build_py(case['spec'])
        df = circ.run(simulation_time=STEPS * DT, step_size=DT, sampling_step_size=DT,
                      outputs=dict(outs) if isinstance(outs, dict) else list(outs), solver='euler', backend='default',
                      vectorize=case['vectorize'], verbose=False, float_precision='float64', clear=True)
    except Exception as e:
        sig['exc'] = type(e).__name__
        return viol('raises', detail=f'{type(e).__name__}: {e}'[:300])
    exp = {(tuple(k) if isinstance(k, list) else k): v for k, v in case['expected']}
    cols = list(df.columns)
    got = {}
    for i, c in enumerate(cols):
        key = tuple(x for x in c if not (isinstance(x, float) and x != x)) if isinstance(c, tuple) else c
        if isinstance(key, tuple) and len(key) == 1:
            key = key[0]     # (key, nan, nan): a single-variable output inside a multi-index frame
        got[key] = which_node(np.asarray(df.iloc[:, i], dtype=float))
    res['evals'] = len(cols)
    res['observed'] = {str(k): v for k, v in got.items()}
    if set(got) != set(exp):
        return viol('columns', got=[str(k) for k in got], expected=[str(k) for k in exp])
    wrong = {str(k): [got[k], exp[k]] for k in exp if got[k] != exp[k]}
    if wrong:
        return viol('column_holds_other_node', wrong=wrong, order=case['order'])
    res['outcome'] = hashlib.sha256(str(sorted((str(k), v) for k, v in got.items())).encode()).hexdigest()[:10]
    res['ok'] = True
    return res
