"""C10 - delayed terms read the true past of the trajectory."""
import hashlib
import itertools
import math

import numpy as np

from ..refsem import Model

LEVEL = 'exploration'
BACKENDS = ()
CHUNK = 4
DT = 0.125

VARS = ['x', 'z', 'w']
DELAYS = [('tau', 1.0), ('tau2', 0.25), ('0.5', 0.5), ('0.3', 0.3)]


def term(v, d, notation):
    return f'past({v}, {d})' if notation == 'past' else f'{v}(t-{d})'


def make_op(nstate, terms, target=0, neg=True):
    """state variables VARS[:nstate]; the equation of VARS[target] gets the delayed terms, the others decay and couple"""
    vs = VARS[:nstate]
    eqs, variables = [], {}
    coef = [2.0, -0.75 if neg else 0.75, 1.5]
    for i, v in enumerate(vs):
        rhs = f'-a{i}*{v}'
        if i == target:
            for j, (tv, dname, notation) in enumerate(terms):
                rhs += f' + {coef[j]}*{term(tv, dname, notation)}'
        elif nstate > 1:
            rhs += f' + 0.5*{vs[(i + 1) % nstate]}'
        eqs.append(f'd/dt * {v} = {rhs}')
        variables[v] = f"{'output' if i == 0 else 'variable'}({round(0.4 + 0.3 * i, 2)})"
        variables[f'a{i}'] = round(0.5 + 0.25 * i, 2)
    for (tv, dname, notation) in terms:
        for name, val in DELAYS:
            if name == dname and not name[0].isdigit():
                variables[name] = val
    return {'eqs': eqs, 'vars': variables}


def cases(tier, seed):
    out = []
    for nstate in (1, 2, 3):
        opts = [(v, d, n) for v in VARS[:nstate] for d, _ in DELAYS for n in ('past', 'call')]
        targets = range(nstate) if tier != 'quick' else (0, nstate - 1)
        for target in sorted(set(targets)):
            for k in (1, 2) if tier == 'quick' else (1, 2, 3):
                combos = list(itertools.combinations(opts, k))
                step = 1 if k == 1 else (7 if tier == 'quick' else (1 if k == 2 else 23))
                for terms in combos[::step]:
                    for solver in ('euler', 'scipy'):
                        for neg in ((False, True) if k > 1 else (False,)):
                            out.append({'kind': 'func', 'nstate': nstate, 'terms': [list(t) for t in terms],
                                        'target': target, 'solver': solver, 'neg': neg})
    # delayed edges under an adaptive solver (DDE branch) and under euler with a hand-made hist
    for d in (0.5, 0.3, 1.0):
        for vec in (False, True):
            out.append({'kind': 'edge', 'delay': d, 'vectorize': vec, 'solver': 'scipy'})
    # several delayed edges between two merged sources and two merged targets under an adaptive solver: every listing
    # order, equal and different delays per source
    pairs = [('r0', 'a'), ('r1', 'b'), ('r0', 'b'), ('r1', 'a')]
    for k in (2, 3):
        for sel in itertools.permutations(pairs, k):
            if k == 3 and sel[0] > sel[1]:
                continue
            for dl in ((0.5,) * k, (0.5, 0.3, 1.0)[:k]):
                for vec in (False, True):
                    out.append({'kind': 'edges', 'edges': [[s_, t_, d_] for (s_, t_), d_ in zip(sel, dl)], 'vectorize': vec,
                                'solver': 'scipy'})
    # 1-3 structurally identical nodes (merged by the vectorization) with their own rate, initial value and - for named
    # delays - their own delay: vectorized and non-vectorized runs must agree
    for n in (1, 2, 3):
        for named in (False, True):
            for notation in ('past', 'call'):
                for solver in ('euler', 'scipy'):
                    out.append({'kind': 'vec', 'n': n, 'named': named, 'notation': notation, 'solver': solver})
                    if notation == 'past':
                        # a node of another type declared first: the merged variable does not start at position 0
                        out.append({'kind': 'vec', 'n': n, 'named': named, 'notation': notation, 'solver': solver, 'lead': True})
    # trajectories: method of steps and exact history of a ramp
    for tau in (0.5, 0.3, 1.0):
        for solver in ('euler', 'heun', 'scipy'):
            out.append({'kind': 'steps', 'tau': tau, 'solver': solver, 'k': 1.5})
            if solver == 'scipy':
                # output sampled much more coarsely than the delay: the history still follows the solver's own steps
                out.append({'kind': 'steps', 'tau': tau, 'solver': solver, 'k': 1.5, 'dts': 1.0, 'T': 4.0})
            out.append({'kind': 'ramp', 'tau': tau, 'solver': solver})
            if solver != 'scipy':
                # coarser sampling than stepping; a run that is longer than the initial capacity of the history buffer
                out.append({'kind': 'ramp', 'tau': tau, 'solver': solver, 'sub': 4})
                for sub in (1, 4):
                    out.append({'kind': 'quad', 'tau': tau, 'solver': solver, 'sub': sub})
                out.append({'kind': 'ramp', 'tau': tau, 'solver': solver, 'sub': 8, 'dt': 2.0 ** -9, 'T': 5.0})
    return out


def describe(tier, seed):
    return {'rule': 'operators with 1-3 state variables and 1-2 (thorough 3) delayed terms over every (variable, delay as named '
                    'constant or literal, notation past(x,tau) / x(t-tau)) combination, delayed variable first or not first in '
                    'the state vector, solver conventions euler (t = step counter) and scipy: the compiled function called '
                    'with a hand-made quadratic hist (distinct per component) at 6 probe times must equal the reference that '
                    'reads component x of hist(t_time - tau); delayed edges (one, and 2-3 between merged sources and targets in every listing order) under an adaptive solver; run() vs method-of-steps '
                    'solution (euler, heun, scipy); vectorized vs non-vectorized runs of 1-3 merged nodes with per-node delays; run() vs the and vs the exact history of a ramp (also sampled more coarsely than stepped, and over '
                    'more steps than the history buffer initially holds); non-trivial = all',
            'bounds': {'state_vars': 3, 'delayed_terms': 2 if tier == 'quick' else 3}}


def poly_hist(paths):
    coefs = {p: (0.3 + 0.2 * i, 0.5 - 0.15 * i, 0.05 + 0.03 * i) for i, p in enumerate(paths)}
    return lambda s: {p: c + a * s + b * s * s for p, (c, a, b) in coefs.items()}


def run_case(case):
    res = {'evals': 0, 'nontrivial': True}
    sig = {'features': [], 'kind_case': case['kind'], 'solver': case['solver']}

    def viol(kind, **kw):
        res['viol'] = dict(kind=kind, sig=dict(sig, kind=kind), **kw)
        res['ok'] = False
        return res
    try:
        return {'func': run_func, 'edge': run_edge, 'steps': run_steps, 'ramp': run_ramp,
                'quad': run_quad, 'vec': run_vec, 'edges': run_edges}[case['kind']](case, res, sig, viol)
    except Exception as e:
        import traceback
        sig['exc'] = type(e).__name__
        return viol('raises', detail=f'{type(e).__name__}: {e}'[:300], trace=traceback.format_exc()[-800:])


def _circuit(op):
    from pyrates import OperatorTemplate, NodeTemplate, CircuitTemplate
    import copy
    o = OperatorTemplate('dop', equations=list(op['eqs']), variables=copy.deepcopy(op['vars']))
    return CircuitTemplate('c', nodes={'n': NodeTemplate('n', operators=[o])})


def run_func(case, res, sig, viol):
    from .. import impl
    terms = [tuple(t) for t in case['terms']]
    op = make_op(case['nstate'], terms, case['target'], case.get('neg', True))
    if case.get('neg') and len(terms) > 1:
        sig['features'].append('delayed_term_with_negative_coefficient')
    m = Model({'dop': op}, {'n': [('dop', {})]}, [])
    circ = _circuit(op)
    C = impl.compile_field(circ, {'vectorize': False, 'dt': DT, 'solver': case['solver']})
    states = m.state_vars()
    if not C.has_hist:
        return viol('no_hist_argument', names=list(C.names))
    pos = {p: C.position(p)[0] for p in states}
    hd = poly_hist(states)

    def hist_arr(s):
        v = hd(float(s))
        out = np.zeros(C.n)
        for p in states:
            out[pos[p]] = v[p]
        return out
    S = {p: 0.31 + 0.2 * i for i, p in enumerate(states)}
    y = np.zeros(C.n)
    for p in states:
        y[pos[p]] = S[p]
    probes = [0, 1, 3, 8, 9, 20] if case['solver'] == 'euler' else [0.0, 0.125, 0.4, 1.0, 1.3, 2.55]
    for t in probes:
        t_time = t * DT if case['solver'] == 'euler' else t
        dy = C.call(y.copy(), t=t, hist=hist_arr)
        exp, _ = m.field(S, t=t_time, hist=hd)
        res['evals'] += 1
        for p in states:
            if abs(dy[pos[p]] - exp[p]) > 1e-9 * max(1.0, abs(exp[p])):
                return viol('delayed_term_value', var=p, t=t, got=float(dy[pos[p]]), expected=float(exp[p]),
                            eqs=op['eqs'])
    res['outcome'] = hashlib.sha256(str(op['eqs']).encode()).hexdigest()[:8]
    res['ok'] = True
    return res


def run_edge(case, res, sig, viol):
    from pyrates import OperatorTemplate, NodeTemplate, CircuitTemplate
    from .. import impl
    so = OperatorTemplate('so', equations=["d/dt * r = c - 0.2*r"], variables={'r': 'output(0.3)', 'c': 0.5})
    to = OperatorTemplate('to', equations=["d/dt * v = -v + u"], variables={'v': 'output(0.1)', 'u': 'input(0.0)'})
    c = CircuitTemplate('c', nodes={'s': NodeTemplate('s', operators=[so]), 'g': NodeTemplate('g', operators=[to])},
                        edges=[('s/so/r', 'g/to/u', None, {'weight': 2.0, 'delay': case['delay']})])
    C = impl.compile_field(c, {'vectorize': case['vectorize'], 'dt': DT, 'solver': 'scipy'})
    if not C.has_hist:
        return viol('no_hist_argument', names=list(C.names))
    pr, pv = C.position('s/so/r')[0], C.position('g/to/v')[0]
    hist = lambda s: np.array([(0.4 + 0.3 * s + 0.1 * s * s) if i == pr else (9.0 + s) for i in range(C.n)])
    y = np.zeros(C.n)
    y[pr], y[pv] = 0.7, 0.2
    for t in (0.0, 0.2, 1.0, 2.3):
        dy = C.call(y.copy(), t=t, hist=hist)
        s_ = t - case['delay']
        exp = -0.2 + 2.0 * (0.4 + 0.3 * s_ + 0.1 * s_ * s_)
        res['evals'] += 1
        if abs(dy[pv] - exp) > 1e-9:
            return viol('delayed_edge_value', t=t, got=float(dy[pv]), expected=exp)
    res['outcome'] = 'edge'
    res['ok'] = True
    return res


def mos_solution(t, k, tau, x0):
    """x' = -k x(t - tau), x = x0 for t <= 0 (method of steps)"""
    tot = 0.0
    n = 0
    while True:
        if n > 0 and t < (n - 1) * tau:
            break
        tot += (-k) ** n * max(t - (n - 1) * tau, 0.0) ** n / math.factorial(n)
        n += 1
        if n > 60:
            break
    return x0 * tot


def run_steps(case, res, sig, viol):
    k, tau, x0, T = case['k'], case['tau'], 0.8, case.get('T', 2.0)
    op = {'eqs': [f"d/dt * x = -k*past(x, tau)"], 'vars': {'x': f'output({x0})', 'k': k, 'tau': tau}}
    errs = []
    for dt in ((2.0 ** -5, 2.0 ** -6) if case['solver'] != 'scipy' else (2.0 ** -5,)):
        from .. import pool
        pool.fresh_state()
        circ = _circuit(op)
        kw = dict(rtol=1e-8, atol=1e-10) if case['solver'] == 'scipy' else {}
        df = circ.run(simulation_time=T, step_size=dt, sampling_step_size=case.get('dts', 2.0 ** -3), outputs={'x': 'n/dop/x'},
                      solver=case['solver'], backend='default', vectorize=False, verbose=False, float_precision='float64',
                      clear=True, **kw)
        ts = np.asarray(df.index, dtype=float)
        exact = np.array([mos_solution(t, k, tau, x0) for t in ts])
        errs.append(float(np.max(np.abs(np.asarray(df['x'], dtype=float) - exact))))
        res['evals'] += 1
    res['observed'] = {'errors': errs}
    if case['solver'] == 'scipy':
        # with coarse output sampling dopri5 takes steps of up to one sampling interval and the history is the linear
        # interpolant of those steps (0.07 observed for tau = 1): only a gross loss of the history is flagged there
        if errs[0] > (0.15 if case.get('dts') else 5e-3):
            return viol('dde_solution_error', errors=errs)
    else:
        ratio = errs[0] / max(errs[1], 1e-300)
        if errs[0] > 0.1 or not (1.4 <= ratio <= (2.8 if case['solver'] == 'euler' else 4.8)):
            return viol('dde_convergence', errors=errs, ratio=ratio)
    res['outcome'] = 'steps'
    res['ok'] = True
    return res


def run_ramp(case, res, sig, viol):
    """x' = c (ramp), z' = past(x, tau): the history is x0 before the start and the (here exactly linear) computed
    trajectory afterwards, also between the recorded samples"""
    tau, c0, x0, z0 = case['tau'], 0.5, 0.25, 0.1
    op = {'eqs': ["d/dt * x = c", "d/dt * z = past(x, tau)"],
          'vars': {'x': f'output({x0})', 'z': f'variable({z0})', 'c': c0, 'tau': tau}}
    circ = _circuit(op)
    T = case.get('T', 2.0)
    DT = case.get('dt', globals()['DT'])
    sub = case.get('sub', 1)
    kw = dict(rtol=1e-9, atol=1e-11) if case['solver'] == 'scipy' else {}
    df = circ.run(simulation_time=T, step_size=DT, sampling_step_size=sub * DT, outputs={'x': 'n/dop/x', 'z': 'n/dop/z'},
                  solver=case['solver'], backend='default', vectorize=False, verbose=False, float_precision='float64',
                  clear=True, **kw)
    ts = np.asarray(df.index, dtype=float)
    xs = x0 + c0 * ts
    if case['solver'] in ('euler', 'heun'):
        # (Heun evaluates both stages at the step's start time, and dz/dt does not depend on the state)
        z = [z0]
        for k in range(int(round(T / DT)) - 1):
            z.append(z[-1] + DT * (x0 + c0 * max(k * DT - tau, 0.0)))
        zs = np.array(z)[::sub]
        tol = 1e-9
    else:
        zs = z0 + x0 * ts + 0.5 * c0 * np.maximum(ts - tau, 0.0) ** 2
        tol = 2e-4
    res['evals'] += 1
    for name, exp in (('x', xs), ('z', zs)):
        got = np.asarray(df[name], dtype=float)
        if got.shape != exp.shape or np.max(np.abs(got - exp)) > tol:
            return viol('history_trajectory', var=name, got=got.tolist()[:10], expected=exp.tolist()[:10])
    res['outcome'] = 'ramp'
    res['ok'] = True
    return res


def run_quad(case, res, sig, viol):
    """x' = c, w' = x (quadratic in t), z' = past(w, tau): between the computed steps the history is the linear
    interpolant of the computed w, whatever the sampling of the output is"""
    tau, c0, x0, w0, z0 = case['tau'], 0.5, 0.25, 0.2, 0.1
    op = {'eqs': ["d/dt * x = c", "d/dt * w = x", "d/dt * z = past(w, tau)"],
          'vars': {'x': f'output({x0})', 'w': f'variable({w0})', 'z': f'variable({z0})', 'c': c0, 'tau': tau}}
    circ = _circuit(op)
    T, sub = 2.0, case.get('sub', 1)
    df = circ.run(simulation_time=T, step_size=DT, sampling_step_size=sub * DT,
                  outputs={'x': 'n/dop/x', 'w': 'n/dop/w', 'z': 'n/dop/z'}, solver=case['solver'], backend='default',
                  vectorize=False, verbose=False, float_precision='float64', clear=True)
    n = int(round(T / DT))
    x, w, z = [x0], [w0], [z0]

    def H(s):
        if s <= 0:
            return w0
        q = s / DT
        lo = int(math.floor(q + 1e-12))
        if lo >= len(w) - 1:
            return w[-1]
        return w[lo] + (q - lo) * (w[lo + 1] - w[lo])
    for k in range(n - 1):
        h = H(k * DT - tau)
        wn = w[-1] + DT * x[-1] + (0.5 * DT * DT * c0 if case['solver'] == 'heun' else 0.0)
        z.append(z[-1] + DT * h)
        x.append(x[-1] + DT * c0)
        w.append(wn)
    res['evals'] += 1
    for name, exp in (('x', x), ('w', w), ('z', z)):
        exp = np.array(exp)[::sub]
        got = np.asarray(df[name], dtype=float)
        if got.shape != exp.shape or np.max(np.abs(got - exp)) > 1e-9:
            return viol('history_trajectory', var=name, got=got.tolist()[:10], expected=exp.tolist()[:10])
    res['outcome'] = 'quad'
    res['ok'] = True
    return res


def run_vec(case, res, sig, viol):
    """n nodes of one template with x' = -a*x - 0.75*x(t - tau): per-node a, x(0) and (named delays) tau"""
    from pyrates import OperatorTemplate, NodeTemplate, CircuitTemplate
    from .. import pool
    n = case['n']
    d = 'tau' if case['named'] else '0.5'
    sig['features'].append('vectorized_delayed_terms')

    def build():
        op = OperatorTemplate('dop', equations=[f"d/dt * x = -a*x - 0.75*{term('x', d, case['notation'])}"],
                              variables=dict({'x': 'output(0.4)', 'a': 0.5}, **({'tau': 0.5} if case['named'] else {})))
        nodes = {}
        if case.get('lead'):
            lo = OperatorTemplate('lop', equations=["d/dt * q = -2.0*q"], variables={'q': 'output(0.7)'})
            nodes['lead0'] = NodeTemplate('lead0', operators=[lo])
        for i in range(n):
            ov = {'a': 0.5 + 0.25 * i, 'x': 0.4 + 0.3 * i}
            if case['named']:
                ov['tau'] = 0.5 - 0.125 * i
            nodes[f'n{i}'] = NodeTemplate(f'n{i}', operators={op: ov})
        return CircuitTemplate('c', nodes=nodes)
    frames = {}
    kw = dict(rtol=1e-9, atol=1e-11) if case['solver'] == 'scipy' else {}
    for vec in (False, True):
        pool.fresh_state()
        df = build().run(simulation_time=2.0, step_size=2.0 ** -5, sampling_step_size=2.0 ** -3,
                         outputs={f'x{i}': f'n{i}/dop/x' for i in range(n)}, solver=case['solver'], vectorize=vec,
                         backend='default', verbose=False, clear=True, float_precision='float64', **kw)
        frames[vec] = np.array([np.asarray(df[f'x{i}'], dtype=float) for i in range(n)])
        res['evals'] += 1
    tol = 1e-10 if case['solver'] == 'euler' else 1e-6
    if frames[True].shape != frames[False].shape or np.max(np.abs(frames[True] - frames[False])) > tol:
        return viol('vectorized_differs', per_node=np.max(np.abs(frames[True] - frames[False]), axis=1).tolist())
    # and the first node against the method-of-steps solution of x' = -a x - k x(t - tau) is covered by 'steps'; here:
    # node i must not equal node j (distinct parameters reach distinct members)
    if n > 1 and np.max(np.abs(frames[True][0] - frames[True][1])) < 1e-3:
        return viol('members_not_distinct')
    res['outcome'] = 'vec'
    res['ok'] = True
    return res


def run_edges(case, res, sig, viol):
    """sources r0, r1 (one template), targets a, b (one template); delayed edges under an adaptive solver read
    hist(t - d)[source] per edge"""
    from pyrates import OperatorTemplate, NodeTemplate, CircuitTemplate
    from .. import impl
    so = OperatorTemplate('so', equations=["d/dt * r = c - 0.2*r"], variables={'r': 'output(0.3)', 'c': 0.5})
    to = OperatorTemplate('to', equations=["d/dt * v = -v + u"], variables={'v': 'output(0.1)', 'u': 'input(0.0)'})
    nodes = {'r0': NodeTemplate('r0', operators={so: {'c': 0.5}}), 'r1': NodeTemplate('r1', operators={so: {'c': 0.8}}),
             'a': NodeTemplate('a', operators=[to]), 'b': NodeTemplate('b', operators=[to])}
    W = [2.0, -0.5, 1.5]
    edges = [(f'{s_}/so/r', f'{t_}/to/u', None, {'weight': W[i], 'delay': d_}) for i, (s_, t_, d_) in enumerate(case['edges'])]
    sig['features'].append('several_delayed_edges_adaptive')
    c = CircuitTemplate('c', nodes=nodes, edges=edges)
    C = impl.compile_field(c, {'vectorize': case['vectorize'], 'dt': DT, 'solver': 'scipy'})
    if not C.has_hist:
        return viol('no_hist_argument', names=list(C.names))
    pos = {p: C.position(p)[0] for p in ('r0/so/r', 'r1/so/r', 'a/to/v', 'b/to/v')}
    coef = {'r0/so/r': (0.4, 0.3, 0.1), 'r1/so/r': (0.9, -0.2, 0.05)}

    def hist(s_):
        out = np.array([7.0 + 0.1 * i + s_ for i in range(C.n)])
        for p, (c0, c1, c2) in coef.items():
            out[pos[p]] = c0 + c1 * s_ + c2 * s_ * s_
        return out
    y = np.zeros(C.n)
    y[pos['r0/so/r']], y[pos['r1/so/r']], y[pos['a/to/v']], y[pos['b/to/v']] = 0.7, 0.45, 0.2, -0.3
    for t in (0.0, 0.2, 1.0, 2.3):
        dy = C.call(y.copy(), t=t, hist=hist)
        res['evals'] += 1
        for tgt, v0 in (('a', 0.2), ('b', -0.3)):
            u = 0.0
            for i, (s_, t_, d_) in enumerate(case['edges']):
                if t_ == tgt:
                    c0, c1, c2 = coef[f'{s_}/so/r']
                    u += W[i] * (c0 + c1 * (t - d_) + c2 * (t - d_) ** 2)
            exp = -v0 + u
            got = float(dy[pos[f'{tgt}/to/v']])
            if abs(got - exp) > 1e-9:
                return viol('delayed_edge_value', target=tgt, t=t, got=got, expected=exp, edges=case['edges'])
    res['outcome'] = 'edges'
    res['ok'] = True
    return res
