"""C13 - results do not depend on what the process did before (explicit-state search over API histories).

Breadth-first over operation sequences; every history is replayed on the real objects in a worker that was
reset to the import-time state; every op's observation is compared with the observation of the same op as
the first op of a pristine process ("solo"); functions returned earlier are re-evaluated after every step.
States (global containers + working directory + stored templates) are hashed so that each distinct state is
expanded once.
"""
import hashlib
import json
import os
import re
import subprocess
import sys

import numpy as np

LEVEL = 'model_checking'
BACKENDS = ()
CHUNK = 4

YAML = """%YAML 1.2
---

yop:
  base: OperatorTemplate
  equations: "d/dt * x = -k*x + c"
  variables:
    x: output(0.5)
    k: 1.0
    c: 0.2

yop2:
  base: yop
  variables:
    k: 2.5

ynode:
  base: NodeTemplate
  operators:
    - yop2

YNet:
  base: CircuitTemplate
  nodes:
    n: ynode
  edges: []
"""

MODELS = ['A', 'B', 'C', 'D1', 'D3', 'F', 'G', 'Y']
YMODELS = ['YA', 'YB']
KINDS = ['grf0', 'grf1', 'run', 'runk', 'jac', 'upd', 'clr', 'again', 'fail', 'opapply']
GLOBAL_OPS = [['cfc', None]]
# operations that exist for selected models only: recompilation of a stored template object with vectorize=False
# (again0), compilation with a decorator and two different decorator arguments (dec1/dec2; A and C generate the same
# source text)
EXTRA_OPS = [['again0', 'G'], ['again0', 'D3'], ['again0', 'A'], ['dec1', 'A'], ['dec2', 'A'], ['dec2', 'C'],
             # a run on a copy (in_place=False), keeping the template object; models written to ONE yaml file name and
             # loaded from there (same template names, other equations and values)
             ['runc', 'A'], ['runc', 'G'], ['runc', 'D3'], ['ydump', 'YA'], ['ydump', 'YB'],
             # the same, but the file is written by the user (not through to_yaml) after clear_frontend_caches()
             ['yfile', 'YA'], ['yfile', 'YB'],
             # a population circuit with two parallel plain connections (compiled, recompiled in place, run), and two
             # depth-2 circuits that share their mid-level circuit OBJECT (update_var on one, compile the other)
             ['grf1', 'P'], ['again', 'P'], ['runk', 'P'], ['upd', 'H1'], ['grf1', 'H1'], ['grf1', 'H2'], ['grf0', 'H2']]


def _scaled(func, factor=1.0):
    def wrapped(*args):
        return factor * np.asarray(func(*args))
    return wrapped



# direct evaluation of parsed expressions (ExpressionParser + eval_node): pairs that share sub-expressions but differ in
# the relative length of their operands, in the operand order of non-commutative operators and in nesting
EXPRS = ["(a + b)^(a*b)", "(a + b)^(a*b*r*rr)", "weight^(a + b)", "weight^(a + b + r)", "(a - b)/(r*rr)", "(r*rr)/(a - b)",
         "sin(a*b) - a*b", "a*b - sin(a*b + r)"]
EXPR_VALS = {'a': 0.7, 'b': 1.3, 'r': 0.45, 'rr': 2.1, 'weight': 1.6}


def all_ops():
    return [[k, m] for m in MODELS for k in KINDS] + GLOBAL_OPS + EXTRA_OPS + [['ev', i] for i in range(len(EXPRS))]


def build(model, store):
    """fresh template objects for `model`; objects that the model shares across circuits live in `store`"""
    from pyrates import OperatorTemplate, NodeTemplate, CircuitTemplate
    if model == 'A':
        op = OperatorTemplate('op', equations=["d/dt * x = -k*x"], variables={'x': 'output(1.0)', 'k': 1.0})
        return CircuitTemplate('A', nodes={'n': NodeTemplate('n', operators=[op])})
    if model == 'B':   # same operator NAME as A, different equation
        op = OperatorTemplate('op', equations=["d/dt * x = -k*x*x"], variables={'x': 'output(0.5)', 'k': 2.0})
        return CircuitTemplate('B', nodes={'n': NodeTemplate('n', operators=[op])})
    if model == 'C':   # same operator STRUCTURE as A (other name, other values)
        op = OperatorTemplate('opc', equations=["d/dt * x = -k*x"], variables={'x': 'output(0.25)', 'k': 3.0})
        return CircuitTemplate('C', nodes={'n': NodeTemplate('n', operators=[op])})
    if model in ('D1', 'D3'):  # the SAME NodeTemplate object in two circuits of different size
        if 'Dnode' not in store:
            op = OperatorTemplate('opd', equations=["d/dt * x = -k*x + 0.1"], variables={'x': 'output(0.4)', 'k': 1.5})
            store['Dnode'] = NodeTemplate('nd', operators=[op])
        nd = store['Dnode']
        labels = ['a'] if model == 'D1' else ['a', 'b', 'cc']
        return CircuitTemplate(model, nodes={l: nd for l in labels})
    if model == 'G':   # edges between nodes of which two are merged by the vectorization; no inputs (same object recompiled)
        so = OperatorTemplate('so', equations=["d/dt * x = -k*x"], variables={'x': 'output(0.8)', 'k': 0.5})
        to = OperatorTemplate('to', equations=["d/dt * v = -v + u + w"],
                              variables={'v': 'output(0.1)', 'u': 'input(0.0)', 'w': 'input(0.0)'})
        g = NodeTemplate('g', operators=[to])
        return CircuitTemplate(model, nodes={'s': NodeTemplate('s', operators=[so]), 'g': g, 'g2': g},
                               edges=[('s/so/x', 'g/to/u', None, {'weight': 2.0}), ('g/to/v', 'g2/to/u', None, {'weight': 0.5}),
                                      ('g2/to/v', 'g/to/w', None, {'weight': -0.25})])
    if model == 'F':   # edges (in_edge counters); an input is added by the ops
        so = OperatorTemplate('so', equations=["d/dt * x = -k*x"], variables={'x': 'output(0.8)', 'k': 0.5})
        to = OperatorTemplate('to', equations=["d/dt * v = -v + u + w"],
                              variables={'v': 'output(0.1)', 'u': 'input(0.0)', 'w': 'input(0.0)'})
        return CircuitTemplate(model, nodes={'s': NodeTemplate('s', operators=[so]), 'g': NodeTemplate('g', operators=[to])},
                               edges=[('s/so/x', 'g/to/u', None, {'weight': 2.0})])
    if model == 'P':
        from pyrates.frontend.template.population import PopulationTemplate, Connectivity
        po = OperatorTemplate('po', equations=["d/dt * x = -k*x + u"], variables={'x': 'output(0.5)', 'k': 1.0, 'u': 'input(0.0)'})
        pe = PopulationTemplate(name='e', node=NodeTemplate('ne', operators=[po]), n=2, params={'po/x': [0.5, 0.8]})
        pi = PopulationTemplate(name='i', node=NodeTemplate('ni', operators=[po]), n=2, params={'po/k': [2.0, 3.0]})
        conns = [Connectivity(source='e/po/x', target='i/po/u', weights=np.array([[0.0, 2.0], [1.0, 0.0]])),
                 Connectivity(source='e/po/x', target='i/po/u', weights=np.array([[0.5, 0.0], [0.0, -1.0]]))]
        return CircuitTemplate('P', populations={'e': pe, 'i': pi}, connections=conns)
    if model in ('H1', 'H2'):
        if 'Hmid' not in store:
            so = OperatorTemplate('so', equations=["d/dt * x = -k*x"], variables={'x': 'output(0.8)', 'k': 0.5})
            leaf = CircuitTemplate('leaf', nodes={'a': NodeTemplate('ha', operators=[so]), 'b': NodeTemplate('hb', operators=[so])})
            store['Hmid'] = CircuitTemplate('mid', circuits={'l1': leaf, 'l2': leaf})
        return CircuitTemplate(model, circuits={'m': store['Hmid']})
    if model in ('YA', 'YB'):
        eq, x0, kk = ("d/dt * x = -k*x", 1.0, 1.0) if model == 'YA' else ("d/dt * x = -k*x*x + 0.3", 0.5, 2.0)
        op = OperatorTemplate('yo', equations=[eq], variables={'x': f'output({x0})', 'k': kk})
        return CircuitTemplate('ynet', nodes={'n': NodeTemplate('yn', operators=[op])})
    if model == 'Y':
        if not os.path.exists('ymodel.yaml'):
            with open('ymodel.yaml', 'w') as f:
                f.write(YAML)
        return CircuitTemplate.from_yaml('ymodel/YNet')
    raise ValueError(model)


def inputs_of(model):
    if model == 'F':
        return {'g/to/w': 0.1 * np.arange(6, dtype=float) ** 2 + 0.2}
    return None


OUT = {'P': 'i/po/x', 'H1': 'm/l1/a/so/x', 'H2': 'm/l1/a/so/x', 'YA': 'n/yo/x', 'YB': 'n/yo/x', 'G': 'g2/to/v', 'A': 'n/op/x', 'B': 'n/op/x', 'C': 'n/opc/x', 'D1': 'all/opd/x', 'D3': 'all/opd/x', 'F': 'g/to/v', 'Y': 'n/yop2/x'}
UPD = {'P': 'e/po/k', 'H1': 'm/l1/a/so/k', 'H2': 'm/l1/a/so/k', 'YA': 'n/yo/k', 'YB': 'n/yo/k', 'G': 's/so/k', 'A': 'n/op/k', 'B': 'n/op/k', 'C': 'n/opc/k', 'D1': 'a/opd/k', 'D3': 'b/opd/k', 'F': 's/so/k', 'Y': 'n/yop2/k'}


def norm_name(n):
    n = re.sub(r'in_edge_\d+', 'in_edge_#', str(n))
    n = re.sub(r'_num\d+', '', n)
    return n


def obs_func(func, args, names, svm):
    a = [np.asarray(x.detach() if hasattr(x, 'detach') else x) if not callable(x) else None for x in args]
    y0 = np.array(a[1], dtype=float)
    vals = []
    for dlt in (0.0, 0.37):
        call = list(args)
        call[1] = y0 + dlt
        call[2] = np.zeros_like(y0)
        vals.append([round(float(v), 10) for v in np.asarray(func(*call), dtype=float).reshape(-1)])
    fabs = []
    for dlt in (0.0, 0.21):
        call = list(args)
        call[1] = 0.3 + 0.1 * np.arange(len(y0)) + dlt
        call[2] = np.zeros_like(y0)
        fabs.append([round(float(v), 10) for v in np.asarray(func(*call), dtype=float).reshape(-1)])
    return {'fabs': fabs, 'names': [norm_name(n) for n in names[3:]],
            'svm': {k: (list(v) if isinstance(v, tuple) else v) for k, v in sorted(svm.items())},
            'args': [[round(float(v), 10) for v in np.asarray(x, dtype=float).reshape(-1)] for x in a[3:]],
            'y0': [round(float(v), 10) for v in y0], 'f': vals}


def do_op(op, store, live):
    """execute one operation on the real code; returns its canonical observation"""
    kind, model = op
    kw = dict(step_size=0.125, verbose=False, float_precision='float64', backend='default')
    if kind == 'ev':
        from pyrates.backend.computegraph import ComputeGraph
        from pyrates.backend.parser import ExpressionParser
        cg = ComputeGraph(backend='default', float_precision='float64')
        args = {k: {'vtype': 'constant', 'value': v, 'dtype': 'float64', 'shape': ()} for k, v in EXPR_VALS.items()}
        args['qq'] = {'vtype': 'variable', 'value': 0.0, 'dtype': 'float64', 'shape': ()}
        ExpressionParser(expr_str=f"qq = {EXPRS[model]}", args=args, cg=cg).parse_expr()
        return {'value': round(float(np.asarray(cg.eval_node(cg.var_updates['non-DEs']['qq'])).reshape(-1)[0]), 10)}
    if kind == 'cfc':
        from pyrates.utility import clear_frontend_caches
        clear_frontend_caches()
        return {'kind': 'cfc'}
    if kind == 'clr':
        t = store.get(('tpl', model))
        if t is None or t._ir is None:
            return {'kind': 'noop'}
        t.clear()
        return {'kind': 'cleared'}
    if kind in ('again', 'again0'):
        # compile the template object that an earlier operation left behind once more (default in_place=True)
        t = store.get(('tpl', model))
        if t is None:
            return {'kind': 'noop'}
        inp = inputs_of(model)
        f, a, n, s = t.get_run_func('vf', vectorize=(kind == 'again'), clear=False,
                                    inputs={k: v.copy() for k, v in inp.items()} if inp else None, **kw)
        o = obs_func(f, a, n, s)
        live.append((f, [x.copy() if hasattr(x, 'copy') else x for x in a], n, s, o))
        return {k: o[k] for k in ('fabs', 'names', 'svm', 'args', 'y0')}
    if kind == 'opapply':
        # direct application of an operator template that has the NAME of the model's operator but other equations
        from pyrates import OperatorTemplate
        name = {'A': 'op', 'B': 'op', 'C': 'opc', 'D1': 'opd', 'D3': 'opd', 'F': 'so', 'G': 'so', 'Y': 'yop2'}[model]
        OperatorTemplate(name, equations=["d/dt * x = -k*x - 1.0"], variables={'x': 'output(2.0)', 'k': 9.0}).apply()
        return {'kind': 'opapply'}
    circ = build(model, store)
    inp = inputs_of(model)
    if kind in ('ydump', 'yfile'):
        from pyrates import CircuitTemplate
        if kind == 'ydump':
            circ.to_yaml('shared_dump.yaml')
            loaded = CircuitTemplate.from_yaml('shared_dump/ynet')
        else:
            from pyrates.utility import clear_frontend_caches
            clear_frontend_caches()
            eq, x0, kk = ("d/dt * x = -k*x", 1.0, 1.0) if model == 'YA' else ("d/dt * x = -k*x*x + 0.3", 0.5, 2.0)
            with open('shared_ext.yaml', 'w') as fh:
                fh.write('%YAML 1.2\n---\n\nyo:\n  base: OperatorTemplate\n  equations: "' + eq + '"\n  variables:\n'
                         f'    x: output({x0})\n    k: {kk}\n\nyn:\n  base: NodeTemplate\n  operators:\n    - yo\n\n'
                         'ynet:\n  base: CircuitTemplate\n  nodes:\n    n: yn\n  edges: []\n')
            loaded = CircuitTemplate.from_yaml('shared_ext/ynet')
        f, a, n, s = loaded.get_run_func('vf', vectorize=True, clear=False, in_place=False, **kw)
        o = obs_func(f, a, n, s)
        live.append((f, [x.copy() if hasattr(x, 'copy') else x for x in a], n, s, o))
        return o
    if kind == 'runc':
        df = circ.run(simulation_time=6 * 0.125, sampling_step_size=0.125, outputs={'o': OUT[model]}, solver='euler',
                      vectorize=True, clear=True, in_place=False, **kw)
        store[('tpl', model)] = circ
        return {'cols': [str(c) for c in df.columns], 'index': [round(float(t), 10) for t in df.index],
                'values': [[round(float(v), 10) for v in row] for row in np.asarray(df.values, dtype=float)]}
    if kind == 'fail':
        # a compilation that fails half-way (edge to a node that does not exist) and is caught by the caller
        bad = circ.update_template(edges=[(OUT[model].replace('all', list(circ.nodes)[0]) if circ.nodes else OUT[model],
                                           'nowhere/op/u', None, {'weight': 1.0})])
        try:
            bad.get_run_func('vf', vectorize=True, clear=False, **kw)
        except Exception as e:
            return {'kind': 'failed', 'exc': type(e).__name__}
        return {'kind': 'did_not_fail'}
    if kind in ('grf0', 'grf1', 'upd', 'dec1', 'dec2'):
        if kind == 'upd':
            circ.update_var(node_vars={UPD[model]: 7.0})
        if kind in ('dec1', 'dec2'):
            kw.update(decorator=_scaled, decorator_kwargs={'factor': -1.0 if kind == 'dec1' else 0.5})
        f, a, n, s = circ.get_run_func('vf', vectorize=(kind != 'grf0'), clear=False,
                                       inputs={k: v.copy() for k, v in inp.items()} if inp else None, **kw)
        store[('tpl', model)] = circ
        o = obs_func(f, a, n, s)
        live.append((f, [x.copy() if hasattr(x, 'copy') else x for x in a], n, s, o))
        return o
    if kind == 'jac':
        f, a, n, s = circ.get_jacobian_func('jf', vectorize=False, clear=False,
                                            inputs={k: v.copy() for k, v in inp.items()} if inp else None, **kw)
        store[('tpl', model)] = circ
        J = f(*a)
        return {'J': [round(float(v), 10) for v in np.asarray(J, dtype=float).reshape(-1)],
                'svm': {k: (list(v) if isinstance(v, tuple) else v) for k, v in sorted(s.items())}}
    if kind in ('run', 'runk'):
        df = circ.run(simulation_time=6 * 0.125, sampling_step_size=0.125, outputs={'o': OUT[model]}, solver='euler',
                      vectorize=True, clear=(kind == 'run'), inputs={k: v.copy() for k, v in inp.items()} if inp else None,
                      **kw)
        if kind == 'runk':
            store[('tpl', model)] = circ
        return {'cols': [str(c) for c in df.columns], 'index': [round(float(t), 10) for t in df.index],
                'values': [[round(float(v), 10) for v in row] for row in np.asarray(df.values, dtype=float)]}
    raise ValueError(kind)


def replay(history):
    """-> (observations, errors, returned-function drift, state hash)"""
    from .. import isolate, tdump
    store, live = {}, []
    obs, drift = [], []
    for i, op in enumerate(history):
        try:
            o = do_op(op, store, live)
        except Exception as e:
            tb = e.__traceback__
            import traceback
            fr = [f for f in traceback.extract_tb(tb) if '/pyrates/' in f.filename]
            o = {'raises': type(e).__name__, 'msg': str(e)[:120],
                 'frame': f'{fr[-1].filename.split("/pyrates/")[-1]}:{fr[-1].name}' if fr else '?'}
        obs.append(o)
        # functions returned earlier must keep computing their own model
        for j, (f, a, n, s, o0) in enumerate(live):
            try:
                o1 = obs_func(f, a, n, s)
                if o1['f'] != o0['f']:
                    drift.append({'after_step': i, 'function_from_step': j, 'was': o0['f'], 'now': o1['f']})
            except Exception as e:
                drift.append({'after_step': i, 'function_from_step': j, 'raises': f'{type(e).__name__}: {e}'[:100]})
    st = {'globals': isolate.state_dump(), 'cwd': sorted(os.listdir('.')),
          'mods': sorted(m for m in sys.modules if m in ('vf', 'jf', 'pyrates_func', 'pyrates_run')),
          'store': {str(k): (tdump.dump_circuit(v) if hasattr(v, 'nodes') and hasattr(v, 'edges') else
                             tdump.dump_graph_tpl(v)) for k, v in sorted(store.items(), key=lambda kv: str(kv[0]))},
          'has_ir': {str(k): getattr(v, '_ir', None) is not None for k, v in store.items() if hasattr(v, '_ir')}}
    h = hashlib.sha256(json.dumps(st, sort_keys=True, default=str).encode()).hexdigest()[:20]
    return obs, drift, h


def run_case(case):
    obs, drift, h = replay(case['history'])
    return {'ok': True, 'obs': obs, 'drift': drift, 'state': h, 'evals': len(case['history'])}


def fresh_interpreter_solo(ops):
    """observations of single ops, each in a brand-new interpreter (validates the worker reset)"""
    code = ("import sys, json, os, tempfile; sys.path.insert(0, %r); os.chdir(tempfile.mkdtemp(prefix='pyx_')); "
            "sys.path.insert(0, os.environ['PYX_REPO']) if os.environ.get('PYX_REPO') else None; "
            "import warnings; warnings.simplefilter('ignore'); "
            "from pyx.props import C13; import io, contextlib; b = io.StringIO()\n"
            "with contextlib.redirect_stdout(b):\n    o, d, h = C13.replay([json.loads(sys.argv[1])])\n"
            "print('@@' + json.dumps(o[0]))\n"
            "import shutil; d_ = os.getcwd(); os.chdir('/'); shutil.rmtree(d_, ignore_errors=True)") % os.path.dirname(os.path.dirname(os.path.dirname(os.path.abspath(__file__))))
    procs = [(op, subprocess.Popen([sys.executable, '-c', code, json.dumps(op)], stdout=subprocess.PIPE,
                                   stderr=subprocess.DEVNULL, env=dict(os.environ, PYTHONHASHSEED='0')))
             for op in ops]
    out = {}
    for op, p in procs:
        txt = p.communicate()[0].decode()
        line = [l for l in txt.splitlines() if l.startswith('@@')]
        out[json.dumps(op)] = json.loads(line[0][2:]) if line else {'fresh_failed': txt[-200:]}
    return out


STORING = ('grf0', 'grf1', 'upd', 'jac', 'runk', 'dec1', 'dec2', 'runc')


def features(history, i):
    """collision classes between the op at step i and the ops before it"""
    kind, model = history[i]
    f = set()
    prev = history[:i]
    pm = {m for _, m in prev if isinstance(m, str)}
    if (model == 'B' and 'A' in pm) or (model == 'A' and 'B' in pm):
        f.add('same_operator_name_other_equations')
    if model in ('A', 'C') and ({'A', 'C'} - {model}) & pm:
        f.add('same_operator_structure')
    if model in ('D1', 'D3') and ({'D1', 'D3'}) & pm:
        f.add('shared_node_template_object')
    if model in ('H1', 'H2') and ({'H1', 'H2'}) & pm:
        f.add('shared_mid_level_circuit_object')
    if model in pm:
        f.add('same_model_before')
    if model == 'Y' and 'Y' in pm:
        f.add('yaml_template_loaded_before')
    if kind == 'ydump' and any(k == 'ydump' and m_ != model for k, m_ in prev):
        last_dump = max(j for j, (k, m_) in enumerate(prev) if k == 'ydump')
        if not any(k == 'cfc' for k, _ in prev[last_dump:]):
            f.add('yaml_file_overwritten_without_cache_clear')
    if any(k in ('grf0', 'grf1', 'jac', 'runk', 'upd', 'dec1', 'dec2') for k, _ in prev):
        f.add('uncleared_compile_before')
    if kind in ('again', 'again0'):
        last = [k for k, m_ in prev if m_ == model and k in STORING]
        if last and (last[-1] in ('grf0', 'jac')) == (kind == 'again'):
            f.add('same_template_recompiled_with_other_vectorize')
    return sorted(f)


def main(ev, tier, seed):
    from .. import cli, findings, pool
    ops = all_ops()
    depth = 2 if tier == 'quick' else 3
    known = findings.load('C13')
    # solo observations (first op after the reset) + cross-check in fresh interpreters
    solo = {}
    for case, res in pool.run('C13', [{'history': [op]} for op in ops], chunksize=2):
        solo[json.dumps(case['history'][0])] = res['obs'][0]
    sample_ops = ops if tier != 'quick' else ops[::3]
    fresh = fresh_interpreter_solo(sample_ops)
    harness_bad = [k for k, v in fresh.items() if v != solo[k]]
    if harness_bad:
        print('HARNESS ERROR: worker reset is not equivalent to a fresh interpreter for', harness_bad[:5])
        print('  fresh:', json.dumps(fresh[harness_bad[0]])[:300])
        print('  pool :', json.dumps(solo[harness_bad[0]])[:300])
        ev.cov.update({'states': 1, 'transitions': 1, 'traces_validated_against_impl': 0, 'samples': [harness_bad[:3]]})
        return 2
    seen = {}
    frontier = [[]]
    states = transitions = 0
    viols, known_hits = [], {}
    n_hist = 0
    distinct_obs = set()
    for lvl in range(1, depth + 1):
        cases = [{'history': h + [op]} for h in frontier for op in ops]
        nxt = []
        for case, res in pool.run('C13', cases, chunksize=4):
            h = case['history']
            n_hist += 1
            transitions += 1
            if not res.get('ok') or 'obs' not in res:
                viols.append((case, res.get('viol') or {'kind': 'harness_error'}))
                continue
            for i, o in enumerate(res['obs']):
                distinct_obs.add(json.dumps(o, sort_keys=True)[:200])
                exp = solo[json.dumps(h[i])]
                if h[i][0] == 'clr':
                    continue   # clear() of a stored template has no solo counterpart (its effect is checked via others)
                if h[i][0] in ('again', 'again0'):
                    # the same template object compiled again must give the function of its last fresh compilation
                    last = [k for k, m_ in h[:i] if m_ == h[i][1] and k in STORING]
                    if not last:
                        continue
                    if h[i][0] == 'again0' and last[-1] in ('upd', 'runk'):
                        # no solo counterpart: update_var + non-vectorized compile is not in the alphabet, and after
                        # run(clear=False) the template carries the final state of that run for continuation, which
                        # PyRates refuses (loudly) to map onto another vectorization
                        continue
                    ref = solo[json.dumps(['grf0' if h[i][0] == 'again0' else 'upd' if last[-1] == 'upd' else 'grf1',
                                           h[i][1]])]
                    # (after run(clear=False) the template deliberately continues from the final state of that run)
                    keys = ('fabs', 'names', 'svm', 'args') + (() if last[-1] == 'runk' else ('y0',))
                    exp = {k: ref[k] for k in keys} if 'fabs' in ref else ref
                    o = {k: o[k] for k in keys} if 'fabs' in o else o
                if o != exp and i == len(h) - 1:     # earlier steps were reported at their own level
                    kind = 'raises' if 'raises' in o else 'observation_differs'
                    v = {'kind': kind, 'step': i, 'op': h[i], 'got': o, 'solo': exp,
                         'sig': {'kind': kind, 'features': features(h, i), 'op_kind': h[i][0], 'exc': o.get('raises'),
                                 'frame': o.get('frame')}}
                    hit = findings.match(v, known)
                    if hit:
                        known_hits.setdefault(hit['id'], [hit, 0])[1] += 1
                    else:
                        viols.append((case, v))
            for d in res['drift']:
                if d['after_step'] == len(h) - 1:
                    v = {'kind': 'returned_function_changed', **d,
                         'sig': {'kind': 'returned_function_changed', 'features': features(h, len(h) - 1),
                                 'op_kind': h[-1][0]}}
                    hit = findings.match(v, known)
                    if hit:
                        known_hits.setdefault(hit['id'], [hit, 0])[1] += 1
                    else:
                        viols.append((case, v))
            if res['state'] not in seen:
                seen[res['state']] = h
                nxt.append(h)
        states = len(seen)
        frontier = nxt
        if len(ev.cov['samples']) < 4 and nxt:
            ev.sample({'history': nxt[len(nxt) // 2], 'level': lvl})
    if depth < 3:
        # depth-3 slice over a reduced alphabet (A-B-A patterns with uncleared compilations)
        small = [['grf0', 'A'], ['grf0', 'B'], ['grf1', 'C'], ['runk', 'A'], ['again', 'G'], ['grf1', 'G'], ['again0', 'G'],
                 ['dec1', 'A'], ['dec2', 'C'], ['ydump', 'YA'], ['ydump', 'YB'], ['cfc', None]]
        import itertools
        cases = [{'history': [list(o) for o in hh]} for hh in itertools.product(small, repeat=3)]
        for case, res in pool.run('C13', cases, chunksize=4):
            h = case['history']
            n_hist += 1
            transitions += 1
            for i, o in enumerate(res.get('obs', [])):
                if h[i][0] in ('again', 'again0'):
                    continue
                exp = solo[json.dumps(h[i])]
                if o != exp:
                    kind = 'raises' if 'raises' in o else 'observation_differs'
                    v = {'kind': kind, 'step': i, 'op': h[i], 'got': o, 'solo': exp,
                         'sig': {'kind': kind, 'features': features(h, i), 'op_kind': h[i][0], 'exc': o.get('raises')}}
                    if not findings.match(v, known):
                        viols.append((case, v))
                    break
            for d in res.get('drift', []):
                viols.append((case, {'kind': 'returned_function_changed', **d, 'sig': {'kind': 'returned_function_changed',
                                                                                      'features': [], 'op_kind': h[-1][0]}}))
                break
    ev.cov.update({'states': states, 'transitions': transitions, 'traces_validated_against_impl': n_hist,
                   'evaluations': n_hist, 'depth_completed': depth, 'ops': len(ops),
                   'fresh_interpreter_crosschecks': len(fresh), 'distinct_observations': len(distinct_obs),
                   'exhaustive': True,
                   'rule': 'BFS over all sequences of the operation alphabet (8 colliding models x {get_run_func vec on/off, '
                           'run clear on/off, get_jacobian_func, update_var+compile, clear, recompile, failing compile, direct operator apply} + recompile with vectorize off, decorated compiles with two decorator arguments, 8 direct expression evaluations, clear_frontend_caches) up to the '
                           'depth bound; each history replayed on the real code from the import-time state; states hashed '
                           'over all module-level containers, working directory and stored templates; oracle: every op '
                           'observes what it observes as the first op of a pristine process; returned functions re-evaluated'})
    ev.nt_override = n_hist
    rc = 0
    for fid, (hit, n) in sorted(known_hits.items()):
        print(f"KNOWN-FINDING: property=C13 {hit['title']} [{fid}; {n} histories in this run]")
    for case, v in viols[:25]:
        path = cli.write_replay('C13', case, v)
        print(f'VIOLATION property=C13 replay={path}')
        print('   ', json.dumps(v, default=str)[:500])
        rc = 1
    ev.violations = len(viols)
    ev.cov['known_finding_cases'] = {k: v[1] for k, v in known_hits.items()}
    print(f"[C13] tier={tier} depth={depth} histories={n_hist} states={states} violations={len(viols)} "
          f"known={sum(v[1] for v in known_hits.values())}")
    return rc
