"""C05 - the equation language means what its arithmetic says (exhaustive grammar up to a size bound).

Every operator-labelled expression skeleton up to N operator nodes is rendered in several surface
variants and evaluated on both paths of the real code (ExpressionParser + eval_node; generated source
of a one-equation operator) and compared with Python-ast/NumPy evaluation.
"""
import hashlib
import itertools
import math

import numpy as np

LEVEL = 'exploration'
BACKENDS = ()
CHUNK = 8

BIN = ['+', '-', '*', '/', '^']
UN_QUICK = ['neg', 'sin', 'cos', 'tanh', 'exp', 'sigmoid', 'absv']
UN_MORE = ['log', 'sqrt', 'arctan', 'sinh', 'cosh', 'tan', 'arcsin', 'arccos', 'sign', 'round']
VARSETS = [('r', 'rr', 'r_in'), ('x', 'x_v1', 'weight'), ('m_in2', 't1', 'm'), ('r_in0', 'rr', 'r'),
           ('u', 'u_in0', 'uu'), ('xx', 'x', 'x_v2')]
LITERALS = ['2', '0.5', '3.0', '1e-3', 'pi', 'E', '2.5', '4']


def skeletons(n, un):
    """all operator-labelled tree skeletons with exactly n operator nodes; leaves are None"""
    if n == 0:
        yield None
        return
    for u in un:
        for sub in skeletons(n - 1, un):
            yield (u, sub)
    for b in BIN:
        for i in range(n):
            for l in skeletons(i, un):
                for r in skeletons(n - 1 - i, un):
                    yield (b, l, r)


def n_leaves(t):
    if t is None:
        return 1
    return sum(n_leaves(c) for c in t[1:])


def fill(t, leaves):
    """replace leaf placeholders by the names in `leaves` (consumed left to right)"""
    it = iter(leaves)

    def rec(t):
        if t is None:
            return next(it)
        return (t[0],) + tuple(rec(c) for c in t[1:])
    return rec(t)


PREC = {'+': 1, '-': 1, '*': 2, '/': 2, 'neg': 3, '^': 4}


def render(t, style):
    """style: 'plain' (spaces, ^), 'tight' (no spaces, **), 'paren' (fully parenthesised), 'comm' (commuted + and *)"""
    sp = '' if style == 'tight' else ' '
    pw = '**' if style == 'tight' else '^'

    def rec(t, parent=None, side=None):
        if isinstance(t, str):
            return t
        op = t[0]
        if op == 'neg':
            inner = rec(t[1], 'neg')
            s = f'-{inner}'
            need = parent in ('^', 'neg') or style == 'paren' or (parent in ('*', '/', '-', '+') and side == 'r')
            return f'({s})' if need else s
        if op in BIN:
            a, b = t[1], t[2]
            if style == 'comm' and op in ('+', '*'):
                a, b = b, a
            l, r = rec(a, op, 'l'), rec(b, op, 'r')
            o = pw if op == '^' else op
            s = f'{l}{sp}{o}{sp}{r}'
            need = style == 'paren'
            if parent in BIN or parent == 'neg':
                pp, cp = PREC[parent], PREC[op]
                if cp < pp or (cp == pp and (side == 'r' or op == '^')) or parent == 'neg':
                    need = True
                if parent == '^':
                    need = True
            return f'({s})' if need and parent is not None else s
        return f'{op}({rec(t[1], "call")})'
    return rec(t)


def cases(tier, seed):
    nmax = 3 if tier == 'quick' else 4
    un = UN_QUICK if tier == 'quick' else UN_QUICK + UN_MORE[:5]
    out = []
    k = seed
    forms = ['ddt', 'prime', 'alg']
    for n in range(1, nmax + 1):
        for sk in skeletons(n, un):
            nl = n_leaves(sk)
            reps = 2 if n <= 3 else 1
            for rep in range(reps):
                vs = VARSETS[k % len(VARSETS)]
                pool = list(vs) + [LITERALS[(k + j) % len(LITERALS)] for j in range(2)]
                # leaves: rotate through variables first so that every expression depends on the state variable
                leaves = [pool[(k + rep + j * (1 + rep)) % len(pool)] if j else vs[0] for j in range(nl)]
                tree = fill(sk, leaves)
                out.append({'tree': tree, 'vars': list(vs), 'form': forms[k % 3], 'seed': seed, 'n': n})
                k += 1
    # documented extras: all functions once, in each variable set, nested one level in each other (thorough)
    fn_all = UN_QUICK[1:] + UN_MORE
    for i, f in enumerate(fn_all):
        vs = VARSETS[i % len(VARSETS)]
        out.append({'tree': ('+', (f, vs[0]), ('*', vs[1], (f, ('*', '0.5', vs[2])))), 'vars': list(vs),
                    'form': forms[i % 3], 'seed': seed, 'n': 4, 'positive': True})
        if tier != 'quick':
            for g in fn_all:
                out.append({'tree': (f, ('*', '0.25', (g, vs[0]))), 'vars': list(vs), 'form': forms[i % 3],
                            'seed': seed, 'n': 3, 'positive': True})
    out += idx_cases(tier, seed)
    # user variables that look like generated labels (x_v1) next to variables that receive such labels: every
    # assignment of {one x, x and x_v1, two x in one node} to 2-3 nodes (order decides who is registered first)
    from .. import gen
    for n in (2, 3):
        for lt, edges in gen.flat_circuits(n, 0, ['L', 'XV', 'LS']):
            for vec in (False, True):
                out.append({'net': True, 'spec': gen.make_spec(lt, edges), 'cfg': {'vectorize': vec}, 'seed': seed})
    # an input with several sources is rewritten to a sum of aliases inside the equation: identifiers next to `^`
    s1 = gen.make_spec([('a', 'PPT2P')], [])
    s2 = gen.make_spec([('a', 'L'), ('b', 'LO'), ('cc', 'T2P')],
                       [['a/lin/x', 'cc/t2p/u', None, {'weight': 2.0}], ['b/lin/x', 'cc/t2p/u', None, {'weight': -0.5}],
                        ['a/lin/x', 'cc/t2p/w', None, {'weight': 1.0}], ['b/lin/x', 'cc/t2p/w', None, {'weight': 3.0}]])
    for sp_ in (s1, s2):
        for vec in (False, True):
            out.append({'net': True, 'spec': sp_, 'cfg': {'vectorize': vec}, 'seed': seed})
    return out


def describe(tier, seed):
    return {'rule': 'every operator-labelled expression skeleton (binary + - * / ^, unary minus, function calls) with up '
                    'to N operator nodes, leaves filled from colliding variable-name sets and literal tables; each in 4 '
                    'surface variants (spacing/^ vs **/full parentheses/commuted operands) and one of the 3 equation '
                    'forms; evaluated on both paths of the real code at 3 valuations vs python-ast/NumPy; non-trivial = '
                    'reference value depends on >=1 variable and is finite; distinct = distinct rendered string; plus index / '
                    'index_2d / index_range / index_axis helpers (also nested and with an index vector) on a vector and a '
                    'matrix in all binary combinations of 15 helper terms, under 3 unary functions and in 3-term quotients',
            'bounds': {'operator_nodes': 3 if tier == 'quick' else 4}}


def valuations(vs, seed, positive=False):
    base = [0.37, 1.21, 0.83, 0.59, 1.43, 0.71]
    out = []
    for k in range(3):
        vals = {}
        for i, v in enumerate(vs):
            x = base[(i + 2 * k + seed) % len(base)] * (1 + 0.125 * k)
            if not positive and (i + k) % 3 == 1:
                x = -x
            vals[v] = x * (0.5 if positive else 1.0)
        out.append(vals)
    return out


def eval_node_path(expr, vals):
    from pyrates.backend.computegraph import ComputeGraph
    from pyrates.backend.parser import ExpressionParser
    cg = ComputeGraph(backend='default', float_precision='float64')
    args = {k: {'vtype': 'constant', 'value': v, 'dtype': 'float64', 'shape': ()} for k, v in vals.items()}
    args['qq'] = {'vtype': 'variable', 'value': 0.0, 'dtype': 'float64', 'shape': ()}
    ExpressionParser(expr_str=f"qq = {expr}", args=args, cg=cg).parse_expr()
    return cg.eval_node(cg.var_updates['non-DEs']['qq'])


def build_op(expr, vs, form, vals):
    from pyrates import OperatorTemplate, NodeTemplate, CircuitTemplate
    sv = vs[0]
    variables = {sv: f'output({vals[sv]})'}
    for v in vs[1:]:
        variables[v] = float(vals[v])
    if form == 'ddt':
        eqs = [f"d/dt * {sv} = {expr}"]
    elif form == 'prime':
        eqs = [f"{sv}' = {expr}"]
    else:
        eqs = [f"d/dt * {sv} = qq", f"qq = {expr}"]
        variables['qq'] = 'variable(0.0)'
    op = OperatorTemplate('op', equations=eqs, variables=variables)
    return CircuitTemplate('c', nodes={'n': NodeTemplate('n', operators=[op])})


def run_case(case):
    from ..refsem import evaluate
    from ..refsem.expr import conditioning
    from .. import impl, pool
    if case.get('idx'):
        return run_idx(case)
    if case.get('net'):
        from . import C01
        r = C01.run_case({'spec': case['spec'], 'cfg': case['cfg'], 'seed': case.get('seed', 0)})
        r['nontrivial'] = True
        return r
    tree = tuple_tree(case['tree'])
    vs = case['vars']
    res = {'evals': 0, 'nontrivial': False}
    strings = {st: render(tree, st) for st in ('plain', 'tight', 'paren', 'comm')}
    feats = []
    if self_nested(tree):
        feats.append('direct_self_nesting')
    feats += sympy_features(strings['plain'])
    if 'round' in [l for l in ops_of(tree)]:
        feats.append('uses_round')
    sig = {'features': feats}

    def viol(kind, **kw):
        res['viol'] = dict(kind=kind, sig=dict(sig, kind=kind), strings=strings, **kw)
        res['ok'] = False
        return res
    vals_all = valuations(vs, case.get('seed', 0), case.get('positive', False))
    if 'degenerate' in feats:
        vals_all = []   # exact division by zero for generic arguments: the string denotes no value
    # reference values per variant and valuation; skip valuations outside the domain
    good = []
    for vals in vals_all:
        try:
            with np.errstate(all='ignore'):
                refs = {st: float(evaluate(s, vals)) for st, s in strings.items()}
        except (ZeroDivisionError, OverflowError, ValueError, TypeError):
            continue
        if all(math.isfinite(x) and abs(x) < 1e8 for x in refs.values()):
            # the floating-point value must be determined by the arithmetic: strings whose value moves by more than
            # 1e-10 when every input moves by 1e-13 (sqrt(sin(pi)), cos(u*sinh(2.5^4))) denote no testable value
            try:
                if conditioning(strings['plain'], vals) > 1e-10:
                    res['ill_conditioned'] = res.get('ill_conditioned', 0) + 1
                    continue
            except (ZeroDivisionError, OverflowError, ValueError, TypeError):
                continue
            good.append((vals, refs))
    if not good:
        res['rejected'] = True
        res['ok'] = True
        res['outcome'] = 'rejected'
        return res
    # variants denote the same value (a wrong renderer in the harness would show up here)
    for vals, refs in good:
        r0 = refs['plain']
        for st, x in refs.items():
            if abs(x - r0) > 1e-9 * max(1.0, abs(r0)):
                return {'ok': False, 'viol': {'kind': 'harness_error', 'detail': f'renderer disagreement {strings}'}}
    h = hashlib.sha256()
    pending = None
    for st, s in strings.items():
        # path (i): parser + eval_node
        for vals, refs in good:
            try:
                got = float(np.asarray(eval_node_path(s, vals)).reshape(-1)[0])
            except Exception as e:
                # remember it, but still exercise the generated-code path for this string
                if pending is None:
                    pending = dict(kind='raises', path='eval_node', expr=s, strings=strings,
                                   detail=f'{type(e).__name__}: {e}'[:200],
                                   sig=dict(sig, kind='raises', exc=type(e).__name__, path='eval_node'))
                pool.fresh_state()
                break
            res['evals'] += 1
            if not close(got, refs[st]):
                sig['path'] = 'eval_node'
                return viol('value_mismatch', path='eval_node', expr=s, vals=vals, got=got, expected=refs[st])
            pool.fresh_state()
        # path (ii): generated code of a one-equation operator
        try:
            circ = build_op(s, vs, case['form'], good[0][0])
            C = impl.compile_field(circ, {'vectorize': False})
        except Exception as e:
            sig['exc'] = type(e).__name__
            sig['path'] = 'codegen'
            return viol('raises', path='codegen', expr=s, form=case['form'], detail=f'{type(e).__name__}: {e}'[:200])
        for vals, refs in good:
            try:
                got = C.field({f'n/op/{vs[0]}': vals[vs[0]]}, {f'n/op/{v}': vals[v] for v in vs[1:]
                                                               if C.arg_slot(f'n/op/{v}') is not None})
                got = float(got[f'n/op/{vs[0]}'])
            except Exception as e:
                sig['exc'] = type(e).__name__
                sig['path'] = 'codegen_call'
                return viol('raises', path='codegen_call', expr=s, form=case['form'],
                            detail=f'{type(e).__name__}: {e}'[:200])
            res['evals'] += 1
            if not close(got, refs[st]):
                sig['path'] = 'codegen'
                return viol('value_mismatch', path='codegen', expr=s, form=case['form'], vals=vals, got=got,
                            expected=refs[st])
            h.update(f'{refs[st]:.9g}'.encode())
        pool.fresh_state()
    if pending is not None:
        res['viol'] = pending
        res['ok'] = False
        return res
    used = any(isinstance(l, str) and l in vs for l in leaves_of(tree))
    res['nontrivial'] = used
    res['nt_key'] = strings['plain']
    res['outcome'] = h.hexdigest()[:10]
    res['ok'] = True
    return res


def close(a, b):
    return math.isfinite(a) and abs(a - b) <= 1e-9 * max(1.0, abs(b))


def tuple_tree(t):
    if isinstance(t, (list, tuple)):
        return tuple(tuple_tree(x) for x in t)
    return t


def leaves_of(t):
    if isinstance(t, str):
        yield t
    else:
        for c in t[1:]:
            yield from leaves_of(c)


def self_nested(t):
    if isinstance(t, str):
        return False
    if t[0] not in BIN and t[0] != 'neg' and not isinstance(t[1], str) and t[1][0] == t[0]:
        return True
    return any(self_nested(c) for c in t[1:])


def ops_of(t):
    if isinstance(t, str):
        return
    yield t[0]
    for c in t[1:]:
        yield from ops_of(c)


def sympy_features(expr):
    """features that depend on how sympy reads the string (used only to attribute known findings, never as oracle)"""
    import sympy
    try:
        e = sympy.sympify(expr)
    except Exception:
        return []
    f = []
    if any(not a.free_symbols for a in e.atoms(sympy.Function)):
        f.append('call_on_literal')   # an unevaluated function application without any variable
    if e.has(sympy.zoo, sympy.nan, sympy.oo):
        f.append('degenerate')
    if any(isinstance(p_.base, sympy.Integer) and any(not a.free_symbols for a in p_.exp.atoms(sympy.Function))
           for p_ in e.atoms(sympy.Pow)):
        f.append('integer_literal_to_power_of_literal_call')   # 4 ^ absv(2): integer base, exponent known only at run time
    return f


# ---- index helpers on vectors and matrices -------------------------------------------------------------------------
IDX_V = np.array([0.5, 1.5, -2.0, 3.0, 0.25])
IDX_M = 0.25 + 0.5 * np.arange(12, dtype=float).reshape(4, 3) * np.array([1.0, -1.0, 1.0])
IDX_V2 = np.array([1.0, -0.5, 2.5, 0.75, -1.25])
IDX_B = np.array([0, 2], dtype=np.int32)
IDX_R = 0.7


def idx_terms(tier):
    t = [('index', 'v', 0), ('index', 'v', 1), ('index', 'v', 4),
         ('index_2d', 'M', 0, 0), ('index_2d', 'M', 1, 2), ('index_2d', 'M', 3, 1),
         ('vsum', ('index_range', 'v', 1, 4)), ('vsum', ('index_range', 'v', 0, 2)),
         ('index', ('index_axis', 'M', 2, 1), 1), ('index', ('index_axis', 'M', 3, 0), 2),
         ('mean', ('index_axis', 'M', 1, 0)), ('mean', ('index_axis', 'M', 0, 1)),
         ('vsum', ('index', 'v', 'B')), ('vsum', 'M'), ('mean', ('index_range', 'M', 1, 3)),
         # helpers applied to expressions: a sum of vectors, a function of a vector, the two-argument form of index_axis
         ('index', ('+', 'v', 'v2'), 1), ('index', ('sin', 'v'), 3), ('vsum', ('index_range', ('*', 'v', 'v2'), 1, 4)),
         ('index', ('index_axis', 'M', 1), 2), 'r', '2']
    if tier != 'quick':
        t += [('index', 'v', 2), ('index', 'v', 3), ('index_2d', 'M', 2, 2), ('mean', ('index_range', 'v', 2, 5)),
              ('index', ('index', 'M', 1), 2), ('vsum', ('index_2d', 'M', 'B', 1))]
    return t


def idx_render(t):
    if isinstance(t, tuple):
        if t[0] in BIN:
            return f'({idx_render(t[1])} {t[0]} {idx_render(t[2])})'
        return f"{t[0]}({', '.join(idx_render(a) for a in t[1:])})"
    return str(t)


def idx_eval(t):
    if isinstance(t, tuple):
        h = t[0]
        if h in BIN:
            a, b = idx_eval(t[1]), idx_eval(t[2])
            with np.errstate(all='ignore'):
                return {'+': a + b, '-': a - b, '*': a * b, '/': a / b, '^': np.float64(a) ** np.float64(b)}[h]
        if h == 'index':
            return idx_eval(t[1])[idx_eval(t[2])]
        if h == 'index_2d':
            return idx_eval(t[1])[idx_eval(t[2]), idx_eval(t[3])]
        if h == 'index_range':
            return idx_eval(t[1])[t[2]:t[3]]
        if h == 'index_axis':
            return idx_eval(t[1])[(slice(None),) * (t[3] if len(t) > 3 else 0) + (t[2],)]
        f = {'vsum': np.sum, 'mean': np.mean, 'maxi': np.max, 'sin': np.sin, 'absv': np.abs, 'neg': np.negative}[h]
        return f(idx_eval(t[1]))
    if isinstance(t, (int, np.integer)):
        return t
    return {'v': IDX_V, 'v2': IDX_V2, 'M': IDX_M, 'B': IDX_B, 'r': IDX_R}.get(t, None) if t in ('v', 'v2', 'M', 'B', 'r') \
        else float(t)


def idx_cases(tier, seed):
    out = []
    T = idx_terms(tier)
    for a in T:
        for f in ('sin', 'absv', 'neg'):
            if isinstance(a, str):
                continue   # functions of plain variables / literals belong to the skeleton grammar above
            out.append({'idx': True, 'tree': (f, a) if f != 'neg' else ('-', '0.5', a), 'seed': seed})
        for b in T:
            if isinstance(a, str) and isinstance(b, str):
                continue
            for op in BIN:
                out.append({'idx': True, 'tree': (op, a, b), 'seed': seed})
    # three helper terms in one expression (quotients and powers of products)
    for a, b, c in itertools.product(T[:9:2], T[1:10:3], T[2:12:4]):
        for o1, o2 in (('*', '/'), ('/', '*'), ('^', '/'), ('-', '/'), ('/', '/')):
            out.append({'idx': True, 'tree': (o2, (o1, a, b), c), 'seed': seed})
    return out


def run_idx(case):
    from pyrates import OperatorTemplate, NodeTemplate, CircuitTemplate
    from pyrates.backend.computegraph import ComputeGraph
    from pyrates.backend.parser import ExpressionParser
    from .. import pool
    tree = tuple_tree(case['tree'])
    res = {'evals': 0, 'nontrivial': True}
    expr = idx_render(tree)
    if expr.startswith('(') and expr.endswith(')'):
        expr = expr[1:-1]
    sig = {'features': ['index_helpers']}

    def viol(kind, **kw):
        res['viol'] = dict(kind=kind, sig=dict(sig, kind=kind), expr=expr, **kw)
        res['ok'] = False
        return res
    try:
        ref = float(idx_eval(tree))
    except (ZeroDivisionError, OverflowError, ValueError, TypeError, IndexError):
        ref = float('nan')
    if not math.isfinite(ref) or abs(ref) > 1e8 or abs(ref) < 1e-9:
        res.update(rejected=True, ok=True, outcome='rejected', nontrivial=False)
        return res
    arr = lambda a, dt: {'vtype': 'constant', 'value': a.copy(), 'shape': a.shape, 'dtype': dt}
    # path (i): parser + eval_node
    try:
        cg = ComputeGraph(backend='default', float_precision='float64')
        args = {'v': arr(IDX_V, 'float64'), 'v2': arr(IDX_V2, 'float64'), 'M': arr(IDX_M, 'float64'), 'B': arr(IDX_B, 'int32'),
                'r': {'vtype': 'constant', 'value': IDX_R, 'shape': (), 'dtype': 'float64'},
                'qq': {'vtype': 'variable', 'value': 0.0, 'shape': (), 'dtype': 'float64'}}
        ExpressionParser(expr_str=f"qq = {expr}", args=args, cg=cg).parse_expr()
        got = float(np.asarray(cg.eval_node(cg.var_updates['non-DEs']['qq'])).reshape(-1)[0])
    except Exception as e:
        sig.update(exc=type(e).__name__, path='eval_node')
        return viol('raises', path='eval_node', detail=f'{type(e).__name__}: {e}'[:200])
    res['evals'] += 1
    if not close(got, ref):
        sig['path'] = 'eval_node'
        return viol('value_mismatch', path='eval_node', got=got, expected=ref)
    pool.fresh_state()
    # path (ii): generated code
    try:
        variables = {'q': 'output(0.0)', 'r': IDX_R}
        if "'v'" in repr(tree):
            variables['v'] = {'vtype': 'constant', 'dtype': 'float', 'value': IDX_V.copy(), 'shape': IDX_V.shape}
        if "'v2'" in repr(tree):
            variables['v2'] = {'vtype': 'constant', 'dtype': 'float', 'value': IDX_V2.copy(), 'shape': IDX_V2.shape}
        if "'M'" in repr(tree):
            variables['M'] = {'vtype': 'constant', 'dtype': 'float', 'value': IDX_M.copy(), 'shape': IDX_M.shape}
        if "'B'" in repr(tree):
            variables['B'] = {'vtype': 'constant', 'dtype': 'int', 'value': IDX_B.copy(), 'shape': IDX_B.shape}
        if "'r'" not in repr(tree):
            variables.pop('r')
        op = OperatorTemplate('op', equations=[f"d/dt * q = -q + {expr}"], variables=variables)
        c = CircuitTemplate('c', nodes={'n': NodeTemplate('n', operators=[op])})
        f, a, n, s_ = c.get_run_func('vf', vectorize=False, step_size=0.1, backend='default', verbose=False, clear=True,
                                     float_precision='float64')
        got = float(np.asarray(f(*a)).reshape(-1)[0])
    except Exception as e:
        sig.update(exc=type(e).__name__, path='codegen')
        return viol('raises', path='codegen', detail=f'{type(e).__name__}: {e}'[:200])
    res['evals'] += 1
    if not close(got, ref):
        sig['path'] = 'codegen'
        return viol('value_mismatch', path='codegen', got=got, expected=ref)
    res['outcome'] = f'{ref:.9g}'
    res['ok'] = True
    return res
