"""C03 - run() returns the numerical solution of the compiled system.

Configuration lattice (model x solver x backend x (T, dt, dts, cutoff)) explored exhaustively; oracle =
the harness' own Euler/Heun loop over the vector field obtained from get_run_func of an identically
built template (fixed step, exact), closed-form solutions (adaptive)."""
import hashlib
import itertools
import math

import numpy as np

LEVEL = 'exploration'
BACKENDS = ('torch', 'jax')
X64 = True
CHUNK = 4

MODELS = {
    'decay': {'ops': {'po': {'eqs': ["d/dt * x = -k*x"], 'vars': {'x': 'output(1.25)', 'k': 0.75}}},
              'node_tpls': {'P': [['po', {}]]}, 'circuit': {'name': 'net', 'nodes': {'p': 'P'}, 'edges': []},
              'out': {'x': 'p/po/x'}},
    'rot': {'ops': {'ro': {'eqs': ["d/dt * x = -w*z", "d/dt * z = w*x"],
                           'vars': {'x': 'output(1.0)', 'z': 'variable(0.5)', 'w': 1.5}}},
            'node_tpls': {'R': [['ro', {}]]}, 'circuit': {'name': 'net', 'nodes': {'r': 'R'}, 'edges': []},
            'out': {'x': 'r/ro/x', 'z': 'r/ro/z'}},
    'edge': {'ops': {'po': {'eqs': ["d/dt * x = -k*x"], 'vars': {'x': 'output(1.25)', 'k': 0.75}},
                     'to': {'eqs': ["v' = -v + u"], 'vars': {'v': 'output(0.25)', 'u': 'input(0.0)'}}},
             'node_tpls': {'P': [['po', {}]], 'G': [['to', {}]]},
             'circuit': {'name': 'net', 'nodes': {'p': 'P', 'g': 'G'}, 'edges': [['p/po/x', 'g/to/u', None, {'weight': 2.0}]]},
             'out': {'x': 'p/po/x', 'v': 'g/to/v'}},
    'inp': {'ops': {'to': {'eqs': ["v' = -v + u"], 'vars': {'v': 'output(0.25)', 'u': 'input(0.0)'}}},
            'node_tpls': {'G': [['to', {}]]}, 'circuit': {'name': 'net', 'nodes': {'g': 'G'}, 'edges': []},
            'out': {'v': 'g/to/v'}, 'input': 'g/to/u'},
    'nonlin': {'ops': {'no': {'eqs': ["d/dt * x = -x*x + tanh(z)", "d/dt * z = x - z^3"],
                              'vars': {'x': 'output(0.8)', 'z': 'variable(-0.4)'}}},
               'node_tpls': {'N': [['no', {}]]}, 'circuit': {'name': 'net', 'nodes': {'n': 'N'}, 'edges': []},
               'out': {'x': 'n/no/x', 'z': 'n/no/z'}},
    'tdep': {'ops': {'qo': {'eqs': ["d/dt * x = -x + 2*t"], 'vars': {'x': 'output(0.5)', 't': 'variable(0.0)'}}},
             'node_tpls': {'Q': [['qo', {}]]}, 'circuit': {'name': 'net', 'nodes': {'q': 'Q'}, 'edges': []},
             'out': {'x': 'q/qo/x'}},
}


def closed_form(model, t):
    if model == 'decay':
        return {'x': 1.25 * np.exp(-0.75 * t)}
    if model == 'rot':
        w = 1.5
        return {'x': np.cos(w * t) - 0.5 * np.sin(w * t), 'z': 0.5 * np.cos(w * t) + np.sin(w * t)}
    if model == 'edge':
        x = 1.25 * np.exp(-0.75 * t)
        # v' = -v + 2x, v(0) = .25:  v = c e^{-t} + A e^{-.75 t},  A(-.75+1) = 2*1.25 -> A = 10
        return {'x': x, 'v': (0.25 - 10.0) * np.exp(-t) + 10.0 * np.exp(-0.75 * t)}
    if model == 'tdep':
        # x' = -x + 2t, x(0)=.5: x = 2t - 2 + 2.5 e^{-t}
        return {'x': 2 * t - 2 + 2.5 * np.exp(-t)}
    return None


def input_array(n):
    k = np.arange(n, dtype=float)
    return 0.05 * k ** 2 - 0.3 * k + 0.2


def grid(tier):
    dts_mult = (1, 2, 5)
    nrows = (3, 4, 7)
    out = []
    for dt in ((0.0625,) if tier == 'quick' else (0.0625, 0.03125)):
        for m in dts_mult:
            for n in nrows:
                dts = dt * m
                T = dts * n
                for cut in ('zero', 'ongrid', 'between', 'last', 'beyond'):
                    cutoff = {'zero': 0.0, 'ongrid': 2 * dts, 'between': 1.5 * dts, 'last': T - dts,
                              'beyond': T - dts / 2}[cut]
                    out.append({'dt': dt, 'dts': dts, 'T': T, 'cutoff': cutoff, 'cut': cut})
    return out


def cases(tier, seed):
    out = []
    solvers = [('euler', None), ('heun', None)]
    for model in MODELS:
        for g in grid(tier):
            for solver, method in solvers:
                for vec in ((False,) if tier == 'quick' else (False, True)):
                    out.append(dict(g, model=model, solver=solver, method=method, backend='default', vectorize=vec))
    # sampling_step_size=None and a decimal slice
    for model in ('decay', 'rot'):
        for solver in ('euler', 'heun'):
            out.append({'dt': 0.0625, 'dts': None, 'T': 0.5, 'cutoff': 0.0, 'cut': 'zero', 'model': model,
                        'solver': solver, 'method': None, 'backend': 'default', 'vectorize': False})
            out.append({'dt': 0.1, 'dts': 0.2, 'T': 1.0, 'cutoff': 0.4, 'cut': 'ongrid', 'model': model,
                        'solver': solver, 'method': None, 'backend': 'default', 'vectorize': False, 'decimal': True})
    # decimal (T, dt) pairs whose float quotient falls just below an integer (0.3/0.1 = 2.9999999999999996)
    for T, dt in ((0.3, 0.1), (0.7, 0.1), (1.2, 0.05), (0.6, 0.1), (2.3, 0.01), (0.7, 1e-3)):
        for model in ('decay', 'rot'):
            for solver in ('euler', 'heun'):
                for dts in (None, dt):
                    out.append({'dt': dt, 'dts': dts, 'T': T, 'cutoff': 0.0, 'cut': 'zero', 'model': model, 'solver': solver,
                                'method': None, 'backend': 'default', 'vectorize': False, 'decimal': True})
    # decimal sampling ratios (0.3/0.1 = 2.9999999999999996) on every backend's own fixed-step solvers
    for backend, solvers_b in (('default', ('euler', 'heun')), ('torch', ('euler',)), ('jax', ('euler', 'heun'))):
        for dt, dts, T in ((0.1, 0.3, 1.2), (0.1, 0.7, 2.1), (1e-2, 6e-2, 0.3)):
            for solver in solvers_b:
                out.append({'dt': dt, 'dts': dts, 'T': T, 'cutoff': 0.0, 'cut': 'zero', 'model': 'rot', 'solver': solver,
                            'method': None, 'backend': backend, 'vectorize': backend != 'default', 'decimal': True})
    # T that is NOT a multiple of the sampling step (the property constrains only dts/dt): round(T/dts) rows, row k at
    # time k*dts. T = dts*n + j*dt for every remainder j; fixed-step solvers of every backend, adaptive on the default one
    for backend, solvers_b in (('default', ('euler', 'heun', 'scipy')), ('torch', ('euler',)), ('jax', ('euler', 'heun')),
                               ('fortran', ('euler',))):
        if tier == 'quick' and backend == 'fortran':
            continue
        for model in (('decay', 'inp', 'nonlin') if backend == 'default' else ('inp',)):
            for mult in (2, 3, 5):
                for n in ((1, 2, 4) if tier == 'quick' else (1, 2, 3, 4)):
                    for j in range(1, mult):
                        for solver in solvers_b:
                            if solver == 'scipy' and model != 'decay':
                                continue
                            dt = 0.0625
                            out.append({'dt': dt, 'dts': dt * mult, 'T': dt * (mult * n + j), 'cutoff': 0.0, 'cut': 'zero',
                                        'model': model, 'solver': solver, 'method': 'RK45' if solver == 'scipy' else None,
                                        'backend': backend, 'vectorize': backend not in ('default', 'fortran'),
                                        'ragged_T': True})
    # T that is not even a multiple of the step: round(T/dt) steps, round(T/dts) rows at k*dts
    for model in ('decay', 'nonlin'):
        for mult in (1, 2, 5):
            for n in (2, 3):
                for frac in (0.25, 0.5, 0.75):
                    for j in range(mult):
                        for solver in ('euler', 'heun', 'scipy'):
                            if solver == 'scipy' and model != 'decay':
                                continue
                            dt = 0.0625
                            out.append({'dt': dt, 'dts': dt * mult, 'T': dt * (mult * n + j + frac), 'cutoff': 0.0,
                                        'cut': 'zero', 'model': model, 'solver': solver,
                                        'method': 'RK45' if solver == 'scipy' else None, 'backend': 'default',
                                        'vectorize': False, 'ragged_T': 'frac'})
    # adaptive solvers against closed forms (incl. the time-dependent model)
    for model in ('decay', 'rot', 'edge', 'tdep', 'inp'):
        for method in ('RK45', 'DOP853', 'Radau') if tier != 'quick' else ('RK45', 'DOP853'):
            for g in grid(tier)[::5][:6]:
                out.append(dict(g, model=model, solver='scipy', method=method, backend='default', vectorize=False))
    # other backends' own implementations of the fixed-step solvers
    for backend, solvers_b in (('torch', ('euler',)), ('jax', ('euler', 'heun'))):
        for model in ('decay', 'rot', 'edge', 'inp', 'nonlin'):
            for g in (grid(tier)[::7] if tier == 'quick' else grid(tier)[::2]):
                for solver in solvers_b:
                    out.append(dict(g, model=model, solver=solver, method=None, backend=backend, vectorize=True))
    # convergence of the fixed-step solvers to the true solution (two-level refinement), time-dependent term included
    for model in ('decay', 'rot', 'edge', 'tdep'):
        for solver in ('euler', 'heun'):
            for backend in ('default',) if tier == 'quick' else ('default', 'jax'):
                if backend == 'jax' and model == 'tdep':
                    continue
                out.append({'conv': True, 'model': model, 'solver': solver, 'method': None, 'backend': backend,
                            'vectorize': backend != 'default', 'dt': 2.0 ** -6, 'dts': 2.0 ** -3, 'T': 1.0,
                            'cutoff': 0.0, 'cut': 'zero'})
    # complex-valued state (float_precision='complex128'): the iterates keep their imaginary part
    for backend, solvers_b in (('default', ('euler', 'heun', 'scipy')), ('torch', ('euler',)), ('jax', ('euler', 'heun'))):
        for solver in solvers_b:
            for mult in (1, 2):
                out.append({'complex': True, 'model': 'cplx', 'solver': solver, 'method': None, 'backend': backend,
                            'vectorize': False, 'dt': 0.0625, 'dts': 0.0625 * mult, 'T': 1.0, 'cutoff': 0.0, 'cut': 'zero'})
    # delayed models: Heun with discrete edge delays (C09's recurrence) and scipy on a delay differential equation
    # (C10's method-of-steps solution)
    from . import C09, C10
    out += [dict(c_, delegate='C09') for c_ in C09.cases(tier, 0) if c_.get('solver') == 'heun' and c_.get('tag') in ('one', 'shared_source')]
    out += [dict(c_, delegate='C10') for c_ in C10.cases(tier, 0) if c_.get('kind') == 'steps']
    if tier != 'quick':
        for model in ('decay', 'rot', 'edge', 'tdep'):
            for g in grid(tier)[::9]:
                out.append(dict(g, model=model, solver='diffrax', method=None, backend='jax', vectorize=True))
    return out


def describe(tier, seed):
    return {'rule': 'full lattice model{decay,rot,edge,inp,nonlin,tdep} x solver{euler,heun} x dt x dts/dt{1,2,5} x T/dts{3,4,7} '
                    'x cutoff{0,on-grid,between,last,beyond} on binary-fraction grids (default backend), slices for '
                    'scipy methods, torch and jax solvers, a complex-valued rotation per backend and solver, every remainder of T modulo the sampling step (T = n*dts + j*dt, j < dts/dt in {2,3,5}) on every backend and T off the step grid (+0.25/0.5/0.75 dt); oracle: own Euler/Heun loop over the get_run_func vector field '
                    'of an identically built template (exact to 1e-12), closed forms for adaptive solvers; '
                    'non-trivial = at least one stored row after the first; distinct = distinct configuration',
            'bounds': {'rows': 7, 'dts_over_dt': 5}}


def spec_of(model):
    m = MODELS[model]
    return {'ops': m['ops'], 'node_tpls': m['node_tpls'], 'edge_tpls': {}, 'circuit': m['circuit'], 'share': True}


def own_fixed_step(C, solver, dt, steps, store_step, hist_inputs=False):
    y = C.y0().astype(float)
    rows = []
    for i in range(steps):
        if i % store_step == 0:
            rows.append(y.copy())
        rhs = C.call(y.copy(), t=i)
        if solver == 'euler':
            y = y + dt * rhs
        else:
            y0 = y + dt * rhs
            y = y + dt / 2 * (rhs + C.call(y0.copy(), t=i))
    return np.array(rows)


def run_case(case):
    from .. import build, impl, pool
    if case.get('delegate'):
        from . import C09, C10
        r = {'C09': C09, 'C10': C10}[case['delegate']].run_case(case)
        r['nontrivial'] = True
        return r
    model = case['model']
    m = MODELS.get(model)
    res = {'evals': 0}
    dt, T, cutoff = case['dt'], case['T'], case['cutoff']
    dts = case['dts']
    dts_eff = dts if dts else dt
    sig = {'features': [], 'solver': case['solver'], 'backend': case['backend'], 'model': model}
    if model == 'tdep' and case['solver'] in ('euler', 'heun'):
        sig['features'].append('explicit_t_fixed_step')
    if case['solver'] == 'heun' and case['backend'] == 'jax' and model == 'inp':
        sig['features'].append('jax_heun_sampled_input')

    def viol(kind, **kw):
        res['viol'] = dict(kind=kind, sig=dict(sig, kind=kind), **kw)
        res['ok'] = False
        return res
    if case.get('conv'):
        return run_conv(case, res, sig, viol)
    if case.get('complex'):
        return run_complex(case, res, sig, viol)
    steps = int(round(T / dt))
    inputs = None
    if 'input' in m:
        inputs = {m['input']: input_array(steps)}
    kw = dict(simulation_time=T, step_size=dt, outputs=dict(m['out']), solver=case['solver'],
              backend=case['backend'], vectorize=case['vectorize'], verbose=False, float_precision='float64',
              cutoff=cutoff, clear=True)
    if dts is not None:
        kw['sampling_step_size'] = dts
    if inputs:
        kw['inputs'] = {k: v.copy() for k, v in inputs.items()}
    if case['method']:
        kw['method'] = case['method']
    if case['backend'] == 'fortran':
        # an f2py extension module cannot be re-imported under the same name within one interpreter (as in C08)
        kw['file_name'] = f"c03_{abs(hash(str(sorted(case.items())))) % 10**9}"
    if case['solver'] in ('scipy', 'diffrax'):
        kw['rtol'] = 1e-7
        kw['atol'] = 1e-9
    try:
        circ = build.build_py(spec_of(model))
        df = circ.run(**kw)
    except Exception as e:
        sig['exc'] = type(e).__name__
        return viol('raises', detail=f'{type(e).__name__}: {e}'[:300])
    # expected time axis
    n_rows = int(round(T / dts_eff))
    times = np.arange(n_rows) * dts_eff
    keep = times >= cutoff - 1e-12
    exp_times = times[keep]
    got_times = np.asarray(df.index, dtype=float)
    if len(got_times) != len(exp_times) or (len(exp_times) and np.max(np.abs(got_times - exp_times)) > 1e-9):
        return viol('time_axis', got=got_times.tolist(), expected=exp_times.tolist())
    if set(map(str, df.columns)) != set(m['out']):
        return viol('columns', got=[str(c) for c in df.columns])
    res['nontrivial'] = len(exp_times) > 1
    # expected values
    pool.fresh_state()
    paths = m['out']
    if case['solver'] in ('euler', 'heun'):
        circ2 = build.build_py(spec_of(model))
        C = impl.compile_field(circ2, {'vectorize': case['vectorize'], 'dt': dt, 'solver': case['solver']},
                               inputs={k: v.copy() for k, v in inputs.items()} if inputs else None)
        store_step = int(round(dts_eff / dt))
        rows = own_fixed_step(C, case['solver'], dt, steps, store_step)
        res['evals'] += steps
        tol = 1e-9 if (case['backend'] == 'default' and not case.get('decimal')) else 1e-7
        for key, path in paths.items():
            pos = C.position(path)[0]
            exp = rows[:n_rows, pos][keep]
            got = np.asarray(df[key], dtype=float)
            if got.shape != exp.shape or (len(exp) and np.max(np.abs(got - exp)) > tol * max(1.0, np.max(np.abs(exp)))):
                return viol('trajectory', var=key, got=got.tolist()[:8], expected=exp.tolist()[:8])
    else:
        cf = closed_form(model, exp_times)
        if cf is None:
            # inp: exact integral is covered by C08; here compare with a fine own Heun reference of the interpolated input
            res['ok'] = True
            res['outcome'] = 'adaptive-no-closed-form'
            return res
        for key in paths:
            got = np.asarray(df[key], dtype=float)
            exp = cf[key]
            if got.shape != exp.shape or (len(exp) and np.max(np.abs(got - exp)) > 2e-5 * max(1.0, np.max(np.abs(exp)))):
                return viol('trajectory_adaptive', var=key, got=got.tolist()[:8], expected=exp.tolist()[:8])
    res['outcome'] = hashlib.sha256(np.asarray(df.values, dtype=float).round(9).tobytes()).hexdigest()[:10]
    res['ok'] = True
    return res


def run_complex(case, res, sig, viol):
    """z' = (i*w - k)*z with a complex state: run() must return the complex Euler / Heun iterates"""
    from pyrates import OperatorTemplate, NodeTemplate, CircuitTemplate
    w, k, z0 = 2.0, 0.3, 1.0 + 0.5j
    dt, dts, T = case['dt'], case['dts'], case['T']
    sig['features'].append('complex_state')
    op = OperatorTemplate('rot', equations=["z' = i*w*z - k*z"],
                          variables={'z': f'variable({z0.real}+{z0.imag}j)', 'w': w, 'k': k, 'i': '0.0+1.0j'})
    circ = CircuitTemplate('c', nodes={'p': NodeTemplate('n', operators=[op])})
    kw = dict(rtol=1e-9, atol=1e-11) if case['solver'] == 'scipy' else {}
    try:
        df = circ.run(simulation_time=T, step_size=dt, sampling_step_size=dts, outputs={'z': 'p/rot/z'},
                      solver=case['solver'], backend=case['backend'], float_precision='complex128', vectorize=False,
                      verbose=False, clear=True, **kw)
        got = np.asarray(df['z'].values).reshape(-1)
    except Exception as e:
        sig['exc'] = type(e).__name__
        return viol('raises', detail=f'{type(e).__name__}: {e}'[:300])
    f = lambda z: (1j * w - k) * z
    z, rows = z0, []
    store = int(round(dts / dt))
    for n in range(int(round(T / dt))):
        if n % store == 0:
            rows.append(z)
        if case['solver'] == 'euler':
            z = z + dt * f(z)
        else:
            zp = z + dt * f(z)
            z = z + dt / 2 * (f(z) + f(zp))
    exp = np.asarray(rows)
    tol = 1e-10
    if case['solver'] == 'scipy':
        exp = z0 * np.exp((1j * w - k) * np.arange(len(rows)) * dts)
        tol = 1e-6
    res['evals'] += len(rows)
    res['nontrivial'] = True
    if got.shape != exp.shape or not np.iscomplexobj(got) or np.max(np.abs(got - exp)) > tol:
        return viol('trajectory', var='z', dtype=str(got.dtype), got=[str(v) for v in got[:4]], expected=[str(v) for v in exp[:4]])
    res['outcome'] = 'complex_' + case['solver']
    res['ok'] = True
    return res


def run_conv(case, res, sig, viol):
    """error against the closed form must be small and shrink with the step size at the order of the method"""
    from .. import build, pool
    m = MODELS[case['model']]
    errs = []
    for dt in (case['dt'], case['dt'] / 2):
        pool.fresh_state()
        try:
            circ = build.build_py(spec_of(case['model']))
            df = circ.run(simulation_time=case['T'], step_size=dt, sampling_step_size=case['dts'],
                          outputs=dict(m['out']), solver=case['solver'], backend=case['backend'],
                          vectorize=case['vectorize'], verbose=False, float_precision='float64', clear=True)
        except Exception as e:
            sig['exc'] = type(e).__name__
            return viol('raises', detail=f'{type(e).__name__}: {e}'[:300])
        cf = closed_form(case['model'], np.asarray(df.index, dtype=float))
        errs.append(max(float(np.max(np.abs(np.asarray(df[k], dtype=float) - cf[k]))) for k in m['out']))
        res['evals'] += 1
    order = 1 if case['solver'] == 'euler' else 2
    ratio = errs[0] / max(errs[1], 1e-300)
    res['nontrivial'] = True
    res['observed'] = {'errors': errs, 'ratio': ratio}
    if errs[0] > 0.05 or not (2 ** order * 0.7 <= ratio <= 2 ** order * 1.4):
        return viol('convergence', errors=errs, ratio=ratio, expected_order=order)
    res['outcome'] = f'conv{order}'
    res['ok'] = True
    return res
