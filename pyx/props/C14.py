"""C14 - read-only and copy-making operations leave a template unchanged (explicit enumeration of op sequences)."""
import copy
import hashlib
import itertools
import json
import os

import numpy as np

LEVEL = 'model_checking'
BACKENDS = ()
CHUNK = 4

SEEDS = ['flat', 'h1', 'h2', 'shared', 'yaml', 'hmod', 'ybase']
MUTATORS = ['upd', 'matrix', 'addedge', 'run_inplace', 'run_keep']
READS = ['run', 'grf', 'jac', 'get_nodes', 'get_edges_all', 'get_edges_sel', 'get_edge', 'collect_edges',
         'get_node_template', 'getitem', 'to_yaml', 'deepcopy', 'update_template', 'load_derived', 'derive_nodes',
         'grid_search', 'derive_operator']

YAML = """%YAML 1.2
---

so:
  base: OperatorTemplate
  equations: "d/dt * x = -k*x"
  variables:
    x: output(0.6)
    k: 1.5

to:
  base: OperatorTemplate
  equations: "d/dt * v = -v + u"
  variables:
    v: output(0.1)
    u: input(0.3)

to2:
  base: to
  variables:
    u: input(0.9)

sn:
  base: NodeTemplate
  operators:
    - so

gn:
  base: NodeTemplate
  operators:
    - to

gn2:
  base: gn
  operators:
    - to2

YBase:
  base: CircuitTemplate
  nodes:
    a: sn
    b: gn
  edges:
    - [a/so/x, b/to/u, null, {weight: 2.0}]

YDerived:
  base: YBase
  nodes:
    cc: gn2
"""


def ops_lib():
    from pyrates import OperatorTemplate
    so = OperatorTemplate('so', equations=["d/dt * x = -k*x"], variables={'x': 'output(0.6)', 'k': 1.5})
    to = OperatorTemplate('to', equations=["d/dt * v = -v + u"], variables={'v': 'output(0.1)', 'u': 'input(0.3)'})
    return so, to


def build_seed(seed):
    """-> (template, info) ; info: node with source/target ops, an existing edge (s, t)"""
    from pyrates import NodeTemplate, CircuitTemplate
    so, to = ops_lib()
    if seed == 'flat':
        n = NodeTemplate('n', operators=[so, to])
        c = CircuitTemplate('flat', nodes={'a': n, 'b': n},
                            edges=[('a/so/x', 'b/to/u', None, {'weight': 2.0}), ('b/so/x', 'a/to/u', None, {'weight': -0.5})])
        return c, {'nodes': ['a', 'b'], 'edge': ('a/so/x', 'b/to/u'), 'sel': ('all/so/x', 'all/to/u'), 'sop': 'so', 'top': 'to'}
    if seed == 'shared':
        n1 = NodeTemplate('n1', operators={so: {'k': 2.5}, to: {}})
        n2 = NodeTemplate('n2', operators={so: {'k': 0.5, 'x': 0.9}, to: {'v': 0.4}})
        c = CircuitTemplate('shared', nodes={'a': n1, 'b': n2, 'cc': n1},
                            edges=[('a/so/x', 'b/to/u', None, {'weight': 2.0}), ('cc/so/x', 'b/to/u', None, {'weight': 3.0})])
        return c, {'nodes': ['a', 'b', 'cc'], 'edge': ('a/so/x', 'b/to/u'), 'sel': ('all/so/x', 'b/to/u'), 'sop': 'so', 'top': 'to'}
    if seed in ('h1', 'h2'):
        n = NodeTemplate('n', operators=[so, to])
        sub = CircuitTemplate('sub', nodes={'a': n, 'b': n}, edges=[('a/so/x', 'b/to/u', None, {'weight': 2.0})])
        sub2 = CircuitTemplate('sub2', nodes={'a': n}, edges=[('a/so/x', 'a/to/u', None, {'weight': 0.25})])
        top = CircuitTemplate('top', circuits={'c1': sub, 'c2': sub2},
                              edges=[('c1/b/so/x', 'c2/a/to/u', None, {'weight': -1.5})])
        if seed == 'h1':
            return top, {'nodes': ['c1/a', 'c1/b', 'c2/a'], 'edge': ('c1/b/so/x', 'c2/a/to/u'),
                         'sel': ('c1/all/so/x', 'c1/all/to/u'), 'sop': 'so', 'top': 'to'}
        top2 = CircuitTemplate('top2', circuits={'d1': top, 'd2': CircuitTemplate('w', circuits={'c3': sub2})},
                               edges=[('d1/c1/a/so/x', 'd2/c3/a/to/u', None, {'weight': 0.75})])
        return top2, {'nodes': ['d1/c1/a', 'd1/c1/b', 'd1/c2/a', 'd2/c3/a'], 'edge': ('d1/c1/a/so/x', 'd2/c3/a/to/u'),
                      'sel': ('d1/c1/all/so/x', 'd1/all/all/to/u'), 'sop': 'so', 'top': 'to'}
    if seed == 'yaml':
        if not os.path.exists('ym14.yaml'):
            with open('ym14.yaml', 'w') as f:
                f.write(YAML)
        c = CircuitTemplate.from_yaml('ym14/YDerived')
        return c, {'nodes': ['a', 'b', 'cc'], 'edge': ('a/so/x', 'b/to/u'), 'sel': ('all/so/x', 'all/to/u'), 'sop': 'so', 'top': 'to'}
    if seed == 'ybase':
        # the base of a derived YAML circuit: loading the derived template must leave it alone
        if not os.path.exists('ym14.yaml'):
            with open('ym14.yaml', 'w') as f:
                f.write(YAML)
        c = CircuitTemplate.from_yaml('ym14/YBase')
        return c, {'nodes': ['a', 'b'], 'edge': ('a/so/x', 'b/to/u'), 'sel': ('all/so/x', 'all/to/u'), 'sop': 'so', 'top': 'to'}
    if seed == 'hmod':
        # a sub-circuit edge whose template has a second source variable given as a path (a string attribute)
        from pyrates import EdgeTemplate, OperatorTemplate
        eop = OperatorTemplate('eop', equations=["m = s_in*(1.0 + g*mod)"],
                               variables={'m': 'output', 's_in': 'input', 'mod': 'input', 'g': 0.5})
        et = EdgeTemplate('et', operators=[eop])
        n = NodeTemplate('n', operators=[so, to])
        sub = CircuitTemplate('sub', nodes={'a': n, 'b': n},
                              edges=[('a/so/x', 'b/to/u', et, {'weight': 2.0, 'et/eop/s_in': 'source', 'et/eop/mod': 'b/so/x'})])
        sub2 = CircuitTemplate('sub2', nodes={'a': n}, edges=[('a/so/x', 'a/to/u', None, {'weight': 0.25})])
        top = CircuitTemplate('top', circuits={'c1': sub, 'c2': sub2},
                              edges=[('c1/b/so/x', 'c2/a/to/u', None, {'weight': -1.5})])
        return top, {'nodes': ['c1/a', 'c1/b', 'c2/a'], 'edge': ('c1/b/so/x', 'c2/a/to/u'),
                     'sel': ('c1/all/so/x', 'c1/all/to/u'), 'sop': 'so', 'top': 'to'}
    raise ValueError(seed)


KW = dict(step_size=0.125, verbose=False, float_precision='float64', backend='default')


def mutate(c, info, m):
    if m == 'upd':
        c.update_var(node_vars={f"{info['nodes'][0]}/so/k": 3.25})
    elif m == 'matrix':
        ns = info['nodes'][:2]
        c.add_edges_from_matrix('so/x', 'to/u', source_nodes=ns, weight=np.array([[0.0, 1.25], [0.5, 0.0]]))
    elif m == 'addedge':
        c.update_template(edges=[(f"{info['nodes'][-1]}/so/x", f"{info['nodes'][0]}/to/u", None, {'weight': 0.125})],
                          in_place=True)
    elif m == 'run_keep':
        # an in-place run that keeps its compiled state and final state on the template (continuation)
        c.run(simulation_time=0.25, outputs={'o': f"{info['nodes'][0]}/so/x"}, solver='euler', vectorize=False,
              clear=False, in_place=True, **KW)
    elif m == 'run_inplace':
        c.run(simulation_time=0.25, outputs={'o': f"{info['nodes'][0]}/so/x"}, solver='euler', vectorize=True,
              clear=True, in_place=True, **KW)


def read_op(c, info, r, k):
    """execute one read-only / copy-making operation; returns a small observation (or None)"""
    n0 = info['nodes'][0]
    if r == 'run':
        df = c.run(simulation_time=0.5, outputs={'o': f"{n0}/so/x", 'p': f"{info['nodes'][-1]}/to/v"}, solver='euler',
                   vectorize=True, clear=True, in_place=False, **KW)
        return [[round(float(v), 10) for v in row] for row in np.asarray(df.values, dtype=float)]
    if r == 'grf':
        f, a, names, svm = c.get_run_func(f'vf{k}', vectorize=False, clear=True, in_place=False, **KW)
        return None
    if r == 'jac':
        c.get_jacobian_func(f'jf{k}', vectorize=False, clear=True, in_place=False, **KW)
        return None
    if r == 'get_nodes':
        return list(c.get_nodes(['all'] * (n0.count('/') + 1)))
    if r == 'get_edges_all':
        return len(c.get_edges('all', 'all'))
    if r == 'get_edges_sel':
        return len(c.get_edges(*info['sel']))
    if r == 'get_edge':
        try:
            e = c.get_edge(*info['edge'])
            return [e[0], e[1]]
        except KeyError:
            return 'KeyError'
    if r == 'collect_edges':
        return len(c.collect_edges())
    if r == 'get_node_template':
        return c.get_node_template(n0).name
    if r == 'getitem':
        x = c[n0.split('/')[0]]
        return None
    if r == 'to_yaml':
        c.to_yaml(f'out{k}.yaml')
        return None
    if r == 'deepcopy':
        copy.deepcopy(c)
        return None
    if r == 'update_template':
        c.update_template()
        c.update_template(edges=[(info['edge'][0], info['edge'][1], None, {'weight': 9.0})])
        return None
    if r == 'derive_nodes':
        # deriving a circuit with additional / replaced nodes (or sub-circuits) returns a new template
        from pyrates import NodeTemplate, CircuitTemplate
        so, to = ops_lib()
        extra = NodeTemplate('extra', operators={so: {'k': 4.5}})
        if c.circuits:
            c.update_template(circuits={'zz': CircuitTemplate('zsub', nodes={'q': extra})})
            first = list(c.circuits)[0]
            c.update_template(circuits={first: CircuitTemplate('zsub', nodes={'q': extra})})
        else:
            c.update_template(nodes={'zz': extra})
            c.update_template(nodes={n0: extra})
        return None
    if r == 'grid_search':
        # a sweep over a node parameter and an edge attribute builds its circuits from copies
        from pyrates import grid_search
        grid_search(c, param_grid={'kk': [0.5, 2.5], 'ww': [1.0, 3.0]},
                    param_map={'kk': {'vars': ['so/k'], 'nodes': [n0]},
                               'ww': {'vars': ['weight'], 'edges': [tuple(info['edge'])]}},
                    simulation_time=0.25, outputs={'o': f"{n0}/so/x"}, solver='euler', vectorize=True, clear=True, **KW)
        return None
    if r == 'derive_operator':
        # deriving an operator (equation edit that stops using a variable) from an operator of this circuit
        node = c.get_node_template(n0)
        op = [o for o in node.operators if o.name == 'so'][0]
        op.update_template(name='so_derived', equations={'replace': {'k*x': 'x'}})
        op.update_template(name='so_derived2', equations=["d/dt * x = -x"])
        return None
    if r == 'load_derived':
        from pyrates import CircuitTemplate
        if not os.path.exists('ym14.yaml'):
            with open('ym14.yaml', 'w') as f:
                f.write(YAML)
        CircuitTemplate.from_yaml('ym14/YDerived')
        CircuitTemplate.from_yaml('ym14/YBase')
        return None
    raise ValueError(r)


def field_obs(c, info):
    """vector field of the template itself at two points + first rows of a run (used at the very end; may mutate)"""
    f, a, names, svm = c.get_run_func('vf_end', vectorize=False, clear=True, in_place=False, **KW)
    y0 = 0.1 + 0.07 * np.arange(len(np.array(a[1], dtype=float)))
    out = []
    for d in (0.0, 0.31):
        call = list(a)
        call[1] = y0 + d
        call[2] = np.zeros_like(y0)
        out.append([round(float(v), 10) for v in np.asarray(f(*call), dtype=float)])
    return {'svm': {k: (list(v) if isinstance(v, tuple) else v) for k, v in sorted(svm.items())}, 'f': out,
            'args': [[round(float(v), 10) for v in np.asarray(x, dtype=float).reshape(-1)] for x in a[3:]]}


def cases(tier, seed):
    M = 1 if tier == 'quick' else 2
    R = 2
    out = []
    for s in SEEDS:
        for m in range(M + 1):
            for muts in itertools.product(MUTATORS, repeat=m):
                reads_all = [rs for r in range(1, R + 1) for rs in itertools.product(READS, repeat=r)]
                if tier == 'quick' and m >= 1:
                    # after a mutator: all single operations, pairs over the operations that touch shared structure
                    core = ['run', 'get_edges_all', 'collect_edges', 'to_yaml', 'deepcopy', 'update_template',
                            'derive_nodes', 'grid_search']
                    reads_all = [(r,) for r in READS] + list(itertools.product(core, repeat=2))
                if tier != 'quick' and m <= 1:
                    reads_all += [rs for rs in itertools.product(['run', 'get_edges_all', 'to_yaml', 'deepcopy',
                                                                  'collect_edges', 'update_template'], repeat=3)]
                for rs in reads_all:
                    out.append({'seed': s, 'muts': list(muts), 'reads': list(rs)})
    return out


def describe(tier, seed):
    return {'rule': 'seeds {flat, depth-1, depth-2, shared operators with per-node overrides, YAML-derived, the YAML base of a derived circuit, depth-1 with a path-valued edge attribute inside a sub-circuit} x every sequence of '
                    '<=M legitimate mutators x every sequence of <=2 (quick: pairs after a mutator over an 8-operation core; thorough: 3 on a sub-alphabet) of the 17 listed read-only / '
                    'copy-making operations; invariant after every read op: canonical dump of the template (equations, '
                    'declared values, per-node variations, edges incl. attribute dicts, edge map, object sharing) unchanged; '
                    'at the end the vector field equals that of a pristine twin and two consecutive run(in_place=False) '
                    'return identical frames; non-trivial = every sequence',
            'bounds': {'mutators': 1 if tier == 'quick' else 2, 'reads': 2}}


def run_case(case):
    from .. import pool, tdump
    res = {'evals': 0, 'nontrivial': True, 'transitions': 0, 'states': 1}
    sig = {'features': [], 'seed': case['seed']}

    def viol(kind, **kw):
        res['viol'] = dict(kind=kind, sig=dict(sig, kind=kind), **kw)
        res['ok'] = False
        return res
    # pristine twin: same seed + mutators, no read ops
    try:
        twin, info = build_seed(case['seed'])
        for m in case['muts']:
            mutate(twin, info, m)
        twin_obs = field_obs(twin, info)
    except Exception as e:
        res['rejected'] = True
        res['ok'] = True
        res['outcome'] = f'seed_state_invalid:{type(e).__name__}'
        return res
    pool.fresh_state()
    c, info = build_seed(case['seed'])
    for m in case['muts']:
        mutate(c, info, m)
    d0 = tdump.dump_circuit(c)
    res['nt_key'] = json.dumps([case['seed'], case['muts'], case['reads']])
    first_run = None
    for k, r in enumerate(case['reads']):
        try:
            o = read_op(c, info, r, k)
        except Exception as e:
            # an operation that refuses (loudly) does not violate this property - unless it left the template changed
            o = None
            res['raised'] = res.get('raised', 0) + 1
        res['transitions'] += 1
        d1 = tdump.dump_circuit(c)
        if d1 != d0:
            sig['op'] = r
            return viol('template_changed', op=r, step=k, diff=diff(d0, d1)[:6])
        if r == 'run':
            if first_run is not None and o != first_run:
                sig['op'] = r
                return viol('repeated_run_differs', first=first_run[:3], second=o[:3])
            first_run = o
    try:
        end_obs = field_obs(c, info)
    except Exception as e:
        sig['exc'] = type(e).__name__
        sig['op'] = case['reads'][-1]
        return viol('raises', op='final_compile', detail=f'{type(e).__name__}: {e}'[:200])
    if end_obs != twin_obs:
        sig['op'] = case['reads'][-1]
        return viol('vector_field_changed', got=end_obs, expected=twin_obs)
    res['evals'] = len(case['reads']) + 1
    res['outcome'] = hashlib.sha256(json.dumps(d0, sort_keys=True).encode()).hexdigest()[:10]
    res['ok'] = True
    return res


def diff(a, b, path=''):
    out = []
    if type(a) != type(b):
        return [f'{path}: {str(a)[:60]} -> {str(b)[:60]}']
    if isinstance(a, dict):
        for k in sorted(set(a) | set(b)):
            if k not in a or k not in b:
                out.append(f'{path}/{k}: {"missing" if k not in a else str(a[k])[:50]} -> {"missing" if k not in b else str(b[k])[:50]}')
            else:
                out += diff(a[k], b[k], f'{path}/{k}')
    elif isinstance(a, list):
        if len(a) != len(b):
            out.append(f'{path}: len {len(a)} -> {len(b)}')
        for i, (x, y) in enumerate(zip(a, b)):
            out += diff(x, y, f'{path}[{i}]')
    elif a != b:
        out.append(f'{path}: {str(a)[:60]} -> {str(b)[:60]}')
    return out


def strip_state(d):
    """the `state` bookkeeping (last simulated state, used to continue a simulation) is not among the things the
    property lists (equations, parameter values, declared initial values, connectivity)"""
    d = dict(d)
    d.pop('state', None)
    d['circuits'] = {k: [strip_state(v[0]), v[1]] for k, v in d.get('circuits', {}).items()}
    return d
