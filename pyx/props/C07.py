"""C07 - parameter and initial-value overrides reach exactly their targets (explicit enumeration of op histories
on templates whose node/operator objects are shared, against a plain dict reference model)."""
import copy
import hashlib
import itertools
import json

import numpy as np

LEVEL = 'model_checking'
BACKENDS = ()
CHUNK = 4
KW = dict(step_size=0.125, verbose=False, float_precision='float64', backend='default')

SEEDS = ['flat', 'hier', 'hier_same', 'hier3', 'flat_et']


def build_seed(seed):
    """-> (circuit, reference dict {path: value}, node paths in declaration order, edges {(s,t): weight})"""
    from pyrates import OperatorTemplate, NodeTemplate, CircuitTemplate
    so = OperatorTemplate('so', equations=["d/dt * x = -k*x + c"], variables={'x': 'output(0.6)', 'k': 1.5, 'c': 0.2})
    to = OperatorTemplate('to', equations=["d/dt * v = -v + u"], variables={'v': 'output(0.1)', 'u': 'input(0.3)'})
    N = NodeTemplate('N', operators=[so, to])                       # shared by several nodes
    N2 = NodeTemplate('N2', operators={so: {'k': 2.5, 'x': 0.9}, to: {}})   # shares the OperatorTemplate objects with N
    base = {'so/x': 0.6, 'so/k': 1.5, 'so/c': 0.2, 'to/v': 0.1, 'to/u': 0.3}
    ov2 = dict(base, **{'so/k': 2.5, 'so/x': 0.9})
    if seed == 'flat':
        c = CircuitTemplate('flat', nodes={'a': N, 'b': N, 'cc': N, 'dd': N2},
                            edges=[('a/so/x', 'b/to/u', None, {'weight': 2.0}), ('dd/so/x', 'a/to/u', None, {'weight': 0.5})])
        nodes = {'a': base, 'b': base, 'cc': base, 'dd': ov2}
        edges = {('a/so/x', 'b/to/u'): 2.0, ('dd/so/x', 'a/to/u'): 0.5}
    elif seed == 'flat_et':
        # four nodes of one template in a ring; every edge goes through the same EdgeTemplate with its own operator values
        from pyrates import EdgeTemplate
        eop = OperatorTemplate('eop', equations=["m = ce*s + be"],
                               variables={'m': 'output(0.0)', 'ce': 1.0, 'be': 0.0, 's': 'input(0.0)'})
        et = EdgeTemplate('et', operators=[eop])
        ring = [('a', 'b', 2.0, 1.5, 0.1), ('b', 'cc', 1.0, 2.5, 0.2), ('cc', 'dd', -0.5, 3.5, 0.3), ('dd', 'a', 0.5, 4.5, 0.4)]
        c = CircuitTemplate('flat_et', nodes={'a': N, 'b': N, 'cc': N, 'dd': N2},
                            edges=[(f'{s_}/so/x', f'{t_}/to/u', et, {'weight': w, 'eop/ce': ce, 'eop/be': be})
                                   for s_, t_, w, ce, be in ring])
        nodes = {'a': base, 'b': base, 'cc': base, 'dd': ov2}
        edges = {(f'{s_}/so/x', f'{t_}/to/u'): {'weight': w, 'ce': ce, 'be': be} for s_, t_, w, ce, be in ring}
    elif seed == 'hier3':
        # depth 3; the SAME mid-level CircuitTemplate object is used for both branches
        sub1 = CircuitTemplate('s1', nodes={'a': N, 'b': N}, edges=[('a/so/x', 'b/to/u', None, {'weight': 2.0})])
        sub2 = CircuitTemplate('s2', nodes={'a': N, 'dd': N2})
        g = CircuitTemplate('g', circuits={'c1': sub1, 'c2': sub2})
        c = CircuitTemplate('hier3', circuits={'g1': g, 'g2': g},
                            edges=[('g2/c2/dd/so/x', 'g1/c1/a/to/u', None, {'weight': 0.5})])
        nodes = {f'{g_}/{n}': v for g_ in ('g1', 'g2') for n, v in
                 {'c1/a': base, 'c1/b': base, 'c2/a': base, 'c2/dd': ov2}.items()}
        edges = {('g1/c1/a/so/x', 'g1/c1/b/to/u'): 2.0, ('g2/c1/a/so/x', 'g2/c1/b/to/u'): 2.0,
                 ('g2/c2/dd/so/x', 'g1/c1/a/to/u'): 0.5}
    elif seed == 'hier_same':
        # the SAME CircuitTemplate object is used for both sub-circuits
        sub = CircuitTemplate('s', nodes={'a': N, 'dd': N2}, edges=[('a/so/x', 'dd/to/u', None, {'weight': 2.0})])
        c = CircuitTemplate('hs', circuits={'c1': sub, 'c2': sub}, edges=[('c2/dd/so/x', 'c1/a/to/u', None, {'weight': 0.5})])
        nodes = {'c1/a': base, 'c1/dd': ov2, 'c2/a': base, 'c2/dd': ov2}
        edges = {('c1/a/so/x', 'c1/dd/to/u'): 2.0, ('c2/a/so/x', 'c2/dd/to/u'): 2.0, ('c2/dd/so/x', 'c1/a/to/u'): 0.5}
    else:
        sub1 = CircuitTemplate('s1', nodes={'a': N, 'b': N}, edges=[('a/so/x', 'b/to/u', None, {'weight': 2.0})])
        sub2 = CircuitTemplate('s2', nodes={'a': N, 'dd': N2})
        c = CircuitTemplate('hier', circuits={'c1': sub1, 'c2': sub2},
                            edges=[('c2/dd/so/x', 'c1/a/to/u', None, {'weight': 0.5})])
        nodes = {'c1/a': base, 'c1/b': base, 'c2/a': base, 'c2/dd': ov2}
        edges = {('c1/a/so/x', 'c1/b/to/u'): 2.0, ('c2/dd/so/x', 'c1/a/to/u'): 0.5}
    ref = {f'{n}/{k}': v for n, vals in nodes.items() for k, v in vals.items()}
    edges = {k: (dict(v) if isinstance(v, dict) else {'weight': v}) for k, v in edges.items()}
    return c, ref, list(nodes), edges


def alphabet(seed):
    if seed == 'hier_same':
        return [['upd', 'c1/a/so/k', 3.0], ['upd', 'c2/dd/so/x', 0.35], ['upd', 'all/a/so/k', 6.0], ['upd', 'c1/all/so/c', 0.7],
                ['upd_arr', 'all/all/so/k', [1.1, 2.2, 3.3, 4.4]], ['upd', 'c2/a/to/u', 0.8],
                ['upd_edge', ['c2/dd/so/x', 'c1/a/to/u'], -1.25], ['apply_nv', 'c1/a/so/k', 9.0]]
    if seed == 'hier3':
        return [['upd', 'g1/c1/a/so/k', 3.0], ['upd', 'g2/c2/dd/so/x', 0.35], ['upd', 'all/all/a/so/k', 6.0],
                ['upd', 'g1/all/all/so/c', 0.7], ['upd_arr', 'g2/c2/all/so/x', [0.11, 0.22]], ['upd', 'g2/c1/b/to/u', 0.8],
                ['upd_arr', 'all/c1/all/so/k', [1.1, 2.2, 3.3, 4.4]],
                ['upd_edge', ['g2/c2/dd/so/x', 'g1/c1/a/to/u'], -1.25], ['apply_nv', 'g2/c1/a/so/k', 9.0]]
    if seed == 'flat_et':
        return [['upd_edge', ['a/so/x', 'b/to/u'], 7.0], ['upd_eop', ['cc/so/x', 'dd/to/u'], 'ce', 3.0],
                ['upd_eop', ['a/so/x', 'b/to/u'], 'be', -0.6], ['upd_eop', ['dd/so/x', 'a/to/u'], 'ce', 0.25],
                ['upd', 'a/so/x', 0.35], ['upd', 'all/so/k', 6.0], ['upd_arr', 'all/so/x', [0.11, 0.22, 0.33, 0.44]],
                ['apply_nv', 'b/so/x', 0.77]]
    if seed == 'flat':
        A, B, D, ALL = 'a', 'b', 'dd', 'all'
        e1 = ('a/so/x', 'b/to/u')
    else:
        A, B, D, ALL = 'c1/a', 'c1/b', 'c2/dd', 'all/all'
        e1 = None   # update_var(edge_vars) addresses top-level edges only
    ops = [['upd', f'{A}/so/k', 3.0], ['upd', f'{A}/so/k', 5.5], ['upd', f'{B}/so/x', 0.35], ['upd', f'{D}/so/k', 4.0],
           ['upd', f'{ALL}/so/k', 6.0], ['upd', f'{A}/to/u', 0.8], ['upd', f'{D}/to/v', 0.45],
           ['upd_arr', f'{ALL}/so/k', [1.1, 2.2, 3.3, 4.4]], ['upd_arr', f'{ALL}/so/x', [0.11, 0.22, 0.33, 0.44]]]
    if seed == 'flat':
        ops += [['upd_edge', list(e1), 7.0], ['upd_edge', ['dd/so/x', 'a/to/u'], -1.25],
                ['add_matrix'], ['upd_edge', ['dd/so/x', 'cc/to/u'], 4.5],
                ['derive_upd', list(e1), 9.5], ['derive_keep'], ['add_matrix_attr'],
                ['derive0_upd', list(e1), 9.5], ['derive0_keep']]
    else:
        ops += [['upd_edge', ['c2/dd/so/x', 'c1/a/to/u'], -1.25], ['upd', 'c1/all/so/c', 0.7],
                ['derive_upd', ['c2/dd/so/x', 'c1/a/to/u'], 9.5], ['derive_keep'],
                ['derive0_upd', ['c2/dd/so/x', 'c1/a/to/u'], 9.5], ['derive0_keep']]
    ops += [['apply_nv', f'{A}/so/k', 9.0], ['apply_nv', f'{D}/so/x', 0.77],
            # several entries that address the same variable: a wildcard first, then an exception (later entries win)
            ['apply_nv2', [[f'{ALL}/so/k', 5.0], [f'{B}/so/k', 7.0]]], ['apply_nv2', [[f'{B}/so/x', 0.21], [f'{ALL}/so/x', 0.31]]]]
    return ops


def match(path, nodes):
    *node, op, var = path.split('/')
    out = []
    for n in nodes:
        parts = n.split('/')
        if len(parts) == len(node) and all(a == 'all' or a == b for a, b in zip(node, parts)):
            out.append(n)
    return out, f'{op}/{var}'


def cases(tier, seed):
    depth = 2 if tier == 'quick' else 3
    out = []
    for s in SEEDS:
        ops = alphabet(s)
        for d in range(0, depth + 1):
            for h in itertools.product(range(len(ops)), repeat=d):
                if d == 3 and sum(ops[i][0].startswith('apply_nv') for i in h) > 1:
                    continue
                for vec in (False, True):
                    out.append({'seed': s, 'history': [ops[i] for i in h], 'vectorize': vec})
    return out


def describe(tier, seed):
    return {'rule': 'templates in which 3 nodes share one NodeTemplate object and a 4th node template shares the '
                    'OperatorTemplate objects (flat, depth-1, depth-1 with one sub-circuit object used twice, depth-2 with one '
                    'mid-level circuit object used twice, flat ring whose edges share one EdgeTemplate with per-edge operator values); every history of <=2 (thorough 3) operations from '
                    '{update_var scalar / wildcard / per-node array on constants, initial values and input defaults, '
                    'update_var(edge_vars) on weights and edge-operator values, apply(node_values), deriving a circuit with an extra edge (and updating an inherited edge of it / keeping it while the parent changes)}; after every history the compiled arguments, initial '
                    'state and edge weights (vectorize on/off) must equal a plain dict reference model; apply(node_values) '
                    'must not persist; non-trivial = history with >= 1 op',
            'bounds': {'ops': 2 if tier == 'quick' else 3}}


def observe(c, nodes, vec, node_values=None):
    """compile a deep copy and read every variable's value by frontend path"""
    from .. import impl
    c2 = copy.deepcopy(c)
    if node_values:
        c2.apply(node_values=node_values, vectorize=vec, verbose=False, backend='default', step_size=0.125,
                 float_precision='float64', adaptive_steps=False)
        func, args, names, svm = c2.intermediate_representation.get_run_func('vf', step_size=0.125)
        names = [c2._ir.get_frontend_varname(n) if n not in ('t', 'y', 'dy') else n for n in names]
        svm = {c2._ir.get_frontend_varname(k): v for k, v in svm.items()}
        C = impl.Compiled(c2, func, args, tuple(names), dict(svm), {'vectorize': vec})
    else:
        C = impl.compile_field(c2, {'vectorize': vec})
    got = {}
    y0 = C.y0()
    for n in nodes:
        for var in ('so/x', 'to/v'):
            got[f'{n}/{var}'] = float(y0[C.position(f'{n}/{var}')[0]])
        for var in ('so/k', 'so/c'):
            v = C.arg_value(f'{n}/{var}')
            got[f'{n}/{var}'] = None if v is None else float(np.asarray(v).reshape(-1)[0])
    return C, got


def run_case(case):
    from .. import tdump
    res = {'evals': 0, 'transitions': 0, 'states': 1}
    c, ref, nodes, edges = build_seed(case['seed'])
    ref = dict(ref)
    edges = dict(edges)
    sig = {'features': [], 'seed': case['seed'], 'vectorize': case['vectorize']}
    res['nontrivial'] = len(case['history']) > 0

    def viol(kind, **kw):
        res['viol'] = dict(kind=kind, sig=dict(sig, kind=kind), **kw)
        res['ok'] = False
        return res
    pending_nv = None
    kept = []
    for i, op in enumerate(case['history']):
        kind = op[0]
        try:
            if kind == 'upd':
                c.update_var(node_vars={op[1]: op[2]})
                tn, key = match(op[1], nodes)
                for n in tn:
                    ref[f'{n}/{key}'] = op[2]
            elif kind == 'upd_arr':
                tn, key = match(op[1], nodes)
                arr = np.asarray(op[2][:len(tn)], dtype=float)
                c.update_var(node_vars={op[1]: arr})
                for n, v in zip(tn, arr):
                    ref[f'{n}/{key}'] = float(v)
            elif kind == 'upd_edge':
                if tuple(op[1]) not in edges:
                    res['rejected'] = True      # the addressed edge does not exist (yet) in this history
                    res['ok'] = True
                    res['outcome'] = 'edge_not_present'
                    return res
                c.update_var(edge_vars=[(op[1][0], op[1][1], {'weight': op[2]})])
                edges[tuple(op[1])]['weight'] = op[2]
            elif kind == 'upd_eop':
                c.update_var(edge_vars=[(op[1][0], op[1][1], {f'eop/{op[2]}': op[3]})])
                edges[tuple(op[1])][op[2]] = op[3]
            elif kind in ('derive_upd', 'derive_keep', 'derive0_upd', 'derive0_keep'):
                # a circuit derived with an additional edge owns its edges: updating an inherited edge of the derived
                # circuit leaves this one alone (derive_upd), and later updates of this one leave the derived one alone
                new_edge = (f'{nodes[1]}/so/x', f'{nodes[-1]}/to/u', None, {'weight': 0.3})
                if kind.startswith('derive0'):
                    # derived without an edges argument (fixed 55c9d13: it shared the edge dicts of its base)
                    new_edge = None
                    d = c.update_template()
                    kind = kind.replace('derive0', 'derive')
                else:
                    d = c.update_template(edges=[new_edge])
                sig['features'] = sorted(set(sig['features']) | {'derived_circuit'})
                if kind == 'derive_upd':
                    if tuple(op[1]) not in edges:
                        res.update(rejected=True, ok=True, outcome='edge_not_present')
                        return res
                    d.update_var(edge_vars=[(op[1][0], op[1][1], {'weight': op[2]})])
                else:
                    kept.append((d, dict(ref), {k_: dict(v_) for k_, v_ in edges.items()}, new_edge))
            elif kind == 'add_matrix':
                if ('dd/so/x', 'cc/to/u') in edges:
                    res['rejected'] = True
                    res['ok'] = True
                    res['outcome'] = 'matrix_twice'
                    return res
                c.add_edges_from_matrix('so/x', 'to/u', source_nodes=['cc', 'dd'], target_nodes=['cc'],
                                        weight=np.array([[1.25, 0.75]]))
                edges[('cc/so/x', 'cc/to/u')] = {'weight': 1.25}
                edges[('dd/so/x', 'cc/to/u')] = {'weight': 0.75}
                sig['features'] = sorted(set(sig['features']) | {'edges_added_in_place'})
            elif kind == 'add_matrix_attr':
                # two calls that are given the SAME edge_attr dictionary with a matrix-valued attribute
                if ('dd/so/x', 'cc/to/u') in edges or ('cc/so/x', 'dd/to/u') in edges:
                    res.update(rejected=True, ok=True, outcome='matrix_twice')
                    return res
                attr = {'delay': np.array([[0.5, 0.25]])}
                c.add_edges_from_matrix('so/x', 'to/u', source_nodes=['cc', 'dd'], target_nodes=['cc'],
                                        weight=np.array([[1.25, 0.75]]), edge_attr=attr)
                c.add_edges_from_matrix('so/x', 'to/u', source_nodes=['cc', 'b'], target_nodes=['dd'],
                                        weight=np.array([[0.3, -0.6]]), edge_attr=attr)
                if sorted(attr) != ['delay'] or np.asarray(attr['delay']).shape != (1, 2):
                    return viol('caller_dictionary_changed', got={k: str(v) for k, v in attr.items()})
                want = {('cc/so/x', 'cc/to/u'): 0.5, ('dd/so/x', 'cc/to/u'): 0.25, ('cc/so/x', 'dd/to/u'): 0.5,
                        ('b/so/x', 'dd/to/u'): 0.25}
                for (s_, t_), d_ in want.items():
                    e_attr = c.get_edge(s_, t_)[3]
                    if e_attr.get('delay') is None or abs(float(e_attr['delay']) - d_) > 1e-12:
                        return viol('matrix_attribute_lost', edge=[s_, t_], got={k: str(v) for k, v in e_attr.items()})
                    e_attr.pop('delay')      # the observation below compares undelayed derivatives
                edges[('cc/so/x', 'cc/to/u')] = {'weight': 1.25}
                edges[('dd/so/x', 'cc/to/u')] = {'weight': 0.75}
                edges[('cc/so/x', 'dd/to/u')] = {'weight': 0.3}
                edges[('b/so/x', 'dd/to/u')] = {'weight': -0.6}
                sig['features'] = sorted(set(sig['features']) | {'edges_added_in_place'})
            elif kind == 'apply_nv2':
                sig['features'] = sorted(set(sig['features']) | {'apply_node_values'})
                Cn, got = observe(c, nodes, case['vectorize'], node_values={k_: v_ for k_, v_ in op[1]})
                exp = dict(ref)
                for k_, v_ in op[1]:
                    tn, key = match(k_, nodes)
                    for n in tn:
                        exp[f'{n}/{key}'] = v_
                bad = {p: (got[p], exp[p]) for p in got if got[p] is not None and abs(got[p] - exp[p]) > 1e-12}
                if bad:
                    return viol('apply_node_values_wrong_targets', step=i, op=op, wrong=bad)
            elif kind == 'apply_nv':
                # compile-time override: visible in that compilation only
                sig['features'] = sorted(set(sig['features']) | {'apply_node_values'})
                Cn, got = observe(c, nodes, case['vectorize'], node_values={op[1]: op[2]})
                exp = dict(ref)
                tn, key = match(op[1], nodes)
                for n in tn:
                    exp[f'{n}/{key}'] = op[2]
                bad = {p: (got[p], exp[p]) for p in got if got[p] is not None and abs(got[p] - exp[p]) > 1e-12}
                if bad:
                    return viol('apply_node_values_wrong_targets', step=i, op=op, wrong=bad)
        except Exception as e:
            sig['exc'] = type(e).__name__
            return viol('raises', step=i, op=op, detail=f'{type(e).__name__}: {e}'[:200])
        res['transitions'] += 1
    # observation: compiled arguments, initial state
    try:
        C, got = observe(c, nodes, case['vectorize'])
    except Exception as e:
        sig['exc'] = type(e).__name__
        return viol('raises', step='observe', detail=f'{type(e).__name__}: {e}'[:200])
    res['evals'] = len(got)
    bad = {p: (got[p], ref[p]) for p in got if got[p] is not None and abs(got[p] - ref[p]) > 1e-12}
    if bad:
        return viol('values_differ_from_reference', wrong=bad, history=case['history'])
    # input defaults and edge weights are observed through the derivative of the target variable
    from .. import values
    y = C.y0().astype(float)
    dy = C.call(y.copy(), t=0)
    for n in nodes:
        inc = [(s, e) for (s, t), e in edges.items() if t == f'{n}/to/u']
        u = sum(e['weight'] * (e['ce'] * ref[s] + e['be'] if 'ce' in e else ref[s]) for s, e in inc) if inc else ref[f'{n}/to/u']
        exp = -ref[f'{n}/to/v'] + u
        g = float(dy[C.position(f'{n}/to/v')[0]])
        if abs(g - exp) > 1e-10:
            return viol('input_or_weight_wrong', node=n, got=g, expected=exp, history=case['history'])
    # derived circuits kept from earlier in the history still have the values they had when they were derived
    for d, dref, dedges, new_edge in kept:
        try:
            Cd, gotd = observe(d, nodes, case['vectorize'])
            dyd = Cd.call(Cd.y0().astype(float), t=0)
        except Exception as e:
            sig['exc'] = type(e).__name__
            return viol('raises', step='observe_derived', detail=f'{type(e).__name__}: {e}'[:200])
        bad = {p: (gotd[p], dref[p]) for p in gotd if gotd[p] is not None and abs(gotd[p] - dref[p]) > 1e-12}
        if bad:
            return viol('derived_circuit_follows_parent', wrong=bad, history=case['history'])
        dedges = dict(dedges)
        if new_edge is not None:
            key = (new_edge[0], new_edge[1])
            dedges[key] = {'weight': dedges.get(key, {'weight': 0.0})['weight'] + 0.3} if key in dedges else {'weight': 0.3}
        for n in nodes:
            inc = [(s_, e) for (s_, t_), e in dedges.items() if t_ == f'{n}/to/u']
            u = sum(e['weight'] * dref[s_] for s_, e in inc) if inc else dref[f'{n}/to/u']
            exp = -dref[f'{n}/to/v'] + u
            g = float(dyd[Cd.position(f'{n}/to/v')[0]])
            if abs(g - exp) > 1e-10:
                return viol('derived_circuit_edges_follow_parent', node=n, got=g, expected=exp, history=case['history'])
    # the same template object compiled in place, an initial value updated, compiled in place again
    if not any(o[0].startswith('apply_nv') for o in case['history']):
        from .. import impl
        try:
            C1 = impl.compile_field(c, {'vectorize': case['vectorize']})
            n0 = nodes[0]
            c.update_var(node_vars={f'{n0}/so/x': 0.515})
            ref[f'{n0}/so/x'] = 0.515
            C2 = impl.compile_field(c, {'vectorize': case['vectorize']})
            y0 = C2.y0()
            bad = {f'{n}/so/x': (float(y0[C2.position(f'{n}/so/x')[0]]), ref[f'{n}/so/x']) for n in nodes
                   if abs(float(y0[C2.position(f'{n}/so/x')[0]]) - ref[f'{n}/so/x']) > 1e-12}
        except Exception as e:
            sig['exc'] = type(e).__name__
            sig['features'] = sorted(set(sig['features']) | {'recompiled_in_place'})
            return viol('raises', step='recompile_in_place', detail=f'{type(e).__name__}: {e}'[:200])
        if bad:
            sig['features'] = sorted(set(sig['features']) | {'recompiled_in_place'})
            return viol('initial_value_stale_after_recompile', wrong=bad)
    res['outcome'] = hashlib.sha256(json.dumps(sorted(ref.items())).encode()).hexdigest()[:10]
    res['ok'] = True
    return res
