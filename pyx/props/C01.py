"""C01 - generated vector field equals the model the user wrote (bounded exhaustive exploration)."""
import hashlib
import json

import numpy as np

from .. import gen, spec as sp, values

LEVEL = 'exploration'
BACKENDS = ()
CHUNK = 4
RTOL, ATOL = 1e-9, 1e-11


def cases(tier, seed):
    out = []
    seen = set()

    def add(s, cfgs, tag):
        key = json.dumps(s, sort_keys=True)
        if key in seen:
            return
        seen.add(key)
        if gen.has_alg_loop(s):
            return
        for cfg in cfgs:
            out.append({'spec': s, 'cfg': cfg, 'tag': tag, 'seed': seed})

    both = [{'vectorize': False}, {'vectorize': True}]
    # one node
    for lt, edges in gen.flat_circuits(1, 2, gen.QUICK_NODES + ['TL', 'TP', 'PPT2R', 'T2P', 'PPT2P']):
        add(gen.make_spec(lt, edges), both, 'flat1')
    # two nodes
    for lt, edges in gen.flat_circuits(2, 2 if tier == 'quick' else 3, gen.QUICK_NODES if tier != 'quick' else
                                       ['L', 'SA', 'AO', 'XV', 'T1', 'T2', 'T2R', 'T2P', 'TW', 'TU', 'LT', 'LS', 'PPT2', 'LO']):
        s = gen.make_spec(lt, edges)
        add(s, both, 'flat2')
        if len(edges) >= 1 and lt[0][1] in ('L', 'SA', 'LT', 'T1') and lt[1][1] in ('T1', 'T2', 'LT', 'PPT2'):
            for mode in ('split', 'dup', 'deepdup') + (('deep',) if tier != 'quick' else ()):
                add(gen.wrap_hier(s, mode), both, 'hier_' + mode)
    # unshared template objects and float32 slice
    for lt, edges in gen.flat_circuits(2, 1, ['L', 'T1', 'LT']):
        s = gen.make_spec(lt, edges, share=False)
        add(s, [{'vectorize': True}, {'vectorize': True, 'float_precision': 'float32'},
                {'vectorize': False, 'float_precision': 'float32'}], 'unshared')
    # edge templates (algebraic), with and without extra source
    for lt, edges in gen.flat_circuits(2, 2, ['L', 'SA', 'T1', 'T2']):
        if not edges:
            continue
        for tplname in ('E1', 'E2'):
            e2 = []
            for i, (src, tgt, _, attrs) in enumerate(edges):
                if i == 0:
                    a = dict(attrs)
                    if tplname == 'E2':
                        a['E2/e2/ei'] = 'source'
                        # extra source: the first state variable of the target node
                        tnode = tgt.split('/')[0]
                        ttpl = dict(lt)[tnode]
                        a['E2/e2/ep'] = f"{tnode}/{gen.node_sources(ttpl)[0]}" if gen.node_sources(ttpl) else None
                        if a['E2/e2/ep'] is None:
                            break
                    e2.append([src, tgt, tplname, a])
                else:
                    e2.append([src, tgt, None, attrs])
            else:
                add(gen.make_spec(lt, e2), both, 'edge_tpl')
    if tier != 'quick':
        for lt, edges in gen.flat_circuits(3, 3, gen.SMALL_NODES, with_self=False):
            add(gen.make_spec(lt, edges), both, 'flat3')
    # large merged groups (>= 10 edges per group: the sparse / indexed realisation of the vectorizer), shared with C04
    from . import C04
    for c in C04.cases(tier, seed):
        if c.get('tag', '').startswith(('one2one12', 'fanout', 'ring12', 'hub12', 'pairs12')) and not c.get('delayed') \
                and c.get('matrix_sparseness') is None:
            add(c['spec'], [{'vectorize': True}, {'vectorize': False}], 'big_' + c['tag'])
    return out


def describe(tier, seed):
    return {'rule': 'all circuits over the node library (see pyx/gen.py) with <=2 (thorough: 3) nodes and every edge '
                    'multiset of size <=2 (thorough: 3) over all (source variable, target input) pairs incl. self '
                    'loops and parallel duplicates; hierarchical wrappings; edge templates; vectorize on/off; each '
                    'compiled on the real code and evaluated at a base point with pairwise distinct values plus all '
                    'single deviations of every state variable and constant; non-trivial = reference derivative of '
                    'some variable depends on an edge or same-node input; distinct = distinct (spec, cfg)',
            'bounds': {'nodes': 2 if tier == 'quick' else 3, 'edges': 2 if tier == 'quick' else 3,
                       'depth': 1 if tier == 'quick' else 2}}


def features(s, vectorize=False):
    """structural features of a case that known findings refer to (computed from the spec only)"""
    import re
    nodes, edges = sp.flatten(s)
    m = sp.refmodel(s)
    f = set()
    pairs = [(e[0], e[1]) for e in edges if e[2] is None]
    if len(set(pairs)) < len(pairs):
        f.add('parallel_edges')
    tpl_of = {n: json.dumps(ops, sort_keys=True) for n, ops in nodes.items()}
    by_tgt = {}
    for src, tgt, tpl, _ in edges:
        by_tgt.setdefault(tgt, []).append(src)
        for p in (src, tgt):
            v = p.rsplit('/', 1)[1]
            if v == 'weight':
                f.add('edge_var_named_weight')
            if re.search(r'_in\d+$', v):
                f.add('edge_var_named_like_alias')
    for tgt, srcs in by_tgt.items():
        intra, _ = m.sources_of(tgt)
        if intra:
            f.add('intra_and_edge_same_input')
        if vectorize:
            # sources that end up in one merged vector (same node template, same op/var) feeding one target element
            groups = {}
            for s_ in srcs:
                n, o, v = s_.rsplit('/', 2)
                groups.setdefault((tpl_of.get(n), o, v), set()).add(n)
            if any(len(g) > 1 for g in groups.values()):
                f.add('merged_sources_one_target_element')
    if vectorize and vector_level_cycle(s, m, nodes, tpl_of):
        f.add('vector_level_algebraic_cycle')
    return sorted(f)


def vector_level_cycle(s, m, nodes, tpl_of):
    """True iff merging structurally identical nodes creates a cycle among algebraic/input variables that does not
    exist between the individual nodes (e.g. the algebraic output of node b feeds, through an edge, the algebraic chain
    of node a of the same type): the vectorized update order cannot satisfy it."""
    import networkx as nx
    from ..refsem.expr import names_in
    g = nx.DiGraph()

    def grp(p):
        n, o, v = p.rsplit('/', 2)
        return (tpl_of.get(n, n), o, v)
    for p, k in m.kind.items():
        if p.startswith('__e'):
            continue
        if k == 'alg':
            scope, rhs = m.rhs[p]
            for nm in names_in(rhs):
                q = f'{scope}/{nm}'
                if m.kind.get(q) in ('alg', 'input'):
                    g.add_edge(grp(q), grp(p))
        elif k == 'input':
            intra, edges = m.sources_of(p)
            for q in intra + [e[1] for e in edges]:
                if m.kind.get(q) in ('alg', 'input') and not q.startswith('__e'):
                    g.add_edge(grp(q), grp(p))
    try:
        nx.find_cycle(g)
        return True
    except nx.NetworkXNoCycle:
        return False


def run_case(case):
    from .. import build, impl
    s, cfg = case['spec'], case['cfg']
    m = sp.refmodel(s)
    states = [p for p in m.state_vars() if not p.startswith('__e')]
    consts = [p for p in m.constants() if not p.startswith('__e')]
    res = {'evals': 0, 'nontrivial': bool(m.edge_src) or any(m.sources_of(p)[0] for p, k in m.kind.items()
                                                               if k == 'input')}
    sig = {'features': features(s, cfg.get('vectorize', False)), 'vectorize': cfg.get('vectorize', False)}

    def viol(kind, **kw):
        res['viol'] = dict(kind=kind, sig=dict(sig, kind=kind), **kw)
        res['ok'] = False
        return res

    try:
        fe = cfg.get('frontend', 'python')
        circ = {'python': build.build_py, 'yaml': build.build_yaml, 'roundtrip': build.build_roundtrip}[fe](s)
        C = impl.compile_field(circ, {k: v for k, v in cfg.items() if k != 'frontend'})
    except Exception as e:
        import traceback
        tb = traceback.extract_tb(e.__traceback__)
        frame = next((f'{fr.filename.split("/pyrates/")[-1]}:{fr.name}' for fr in reversed(tb)
                      if '/pyrates/' in fr.filename), '?')
        sig['frame'] = frame
        sig['exc'] = type(e).__name__
        return viol('compile_raises', detail=f'{type(e).__name__}: {e}'[:300], frame=frame)
    # layout: own distinct positions for every declared state variable
    pos = {}
    try:
        for p in states:
            pos[p] = C.position(p)
    except KeyError as e:
        return viol('state_var_missing_in_layout', detail=str(e), svm=str(C.svm))
    flat = [i for p in states for i in pos[p]]
    if len(set(flat)) != len(flat) or any(len(v) != 1 for v in pos.values()):
        return viol('layout_overlap', detail=str(pos))
    if sorted(flat) != list(range(C.n)) and not s.get('edge_tpls'):
        return viol('layout_not_covering', detail=f'{pos} n={C.n}')
    # initial state and argument values
    y0 = C.y0()
    tol = 2e-6 if cfg.get('float_precision') == 'float32' else 1e-12
    for p in states:
        if abs(y0[pos[p][0]] - m.init[p]) > tol * max(1, abs(m.init[p])):
            return viol('initial_value', detail=f'{p}: y0={y0[pos[p][0]]} declared={m.init[p]}')
    addressable = []
    for p in consts:
        v = C.arg_value(p)
        if v is None:
            continue
        addressable.append(p)
        if np.size(v) != 1 or abs(float(np.asarray(v).reshape(-1)[0]) - m.init[p]) > tol * max(1, abs(m.init[p])):
            return viol('argument_value', detail=f'{p}: arg={v} declared={m.init[p]}')
    # constants that collapse to one shared scalar cannot be deviated per node: group them
    groups = {}
    for p in addressable:
        groups.setdefault(C.arg_slot(p), []).append(p)
    rt, at = (3e-4, 3e-5) if cfg.get('float_precision') == 'float32' else (RTOL, ATOL)
    h = hashlib.sha256()
    for S, P in values.probe_points(states, addressable, m.init, seed=case.get('seed', 0)):
        Pm = dict(P)
        for p, v in P.items():
            for q in groups[C.arg_slot(p)]:
                Pm[q] = v
        try:
            got = C.field(S, P, state_paths=states)
        except Exception as e:
            sig['exc'] = type(e).__name__
            return viol('call_raises', detail=f'{type(e).__name__}: {e}'[:300], point=[S, P])
        exp, _ = m.field(S, Pm)
        res['evals'] += 1
        for p in states:
            g, x = complex(got[p]) if np.iscomplexobj(got[p]) else float(got[p]), exp[p]
            h.update(f'{x:.9g}'.encode())
            if not np.isfinite(g) or abs(g - x) > at + rt * abs(x):
                sig['var_kind'] = 'state'
                return viol('value_mismatch', var=p, got=g, expected=float(x), point=[S, P],
                            names=list(C.names), svm=str(C.svm))
    res['outcome'] = h.hexdigest()[:10]
    res['ok'] = True
    return res
