"""C02 - all backends compute the same function for the same model.

Feature basket x backend x precision x vectorize x vector-field convention; every cell is compared per frontend
variable with the reference semantics (hence with every other backend) at the probe points, and trajectories with the
same solver settings are compared with the default backend's.
"""
import hashlib
import itertools
import json

import numpy as np

from .. import gen, spec as sp
from . import C01, C12

LEVEL = 'exploration'
BACKENDS = ('torch', 'jax', 'fortran')
CHUNK = 1
CASE_BUDGET = 400
DT = 0.125


def fun_spec(name, op):
    return {'ops': {'fo': op}, 'node_tpls': {'F': [['fo', {}]]}, 'edge_tpls': {}, 'share': True,
            'circuit': {'name': 'net', 'nodes': {'n': 'F'}, 'edges': []}}


EXTRA_OPS = {
    'G1': {'eqs': ["d/dt * x = maxi(x, z) - mini(k*x, z)", "d/dt * z = -z + sign(x)*absv(z) + x*pi/4"],
           'vars': {'x': 'output(0.6)', 'z': 'variable(-0.4)', 'k': 2.0}},
    'G2': {'eqs': ["d/dt * x = -x + log(1 + z^2) + 1.1*z - 0.3", "d/dt * z = -z/3.7 + sqrt(2 + x^2)*1e-1"],
           'vars': {'x': 'output(0.6)', 'z': 'variable(0.4)'}},
    # a long right-hand side: Fortran line wrapping with exponents and ** near the break
    'G3': {'eqs': ["d/dt * x = -1.25e-1*x^3 + 2.5e-2*z^2*x - 3.75e-3*x*z + 1.5e+1*k1 - 2.25*k2^2 + 0.5*k3*x^2 - k4*z^3 + "
                   "1.0e-2*k1*k2*k3*k4*x*z - (k1 + k2)^2*(x - z)^2 + 7.5e-1*x/(1 + z^2) + k3^3*z",
                   "d/dt * z = -z + x"],
           'vars': {'x': 'output(0.6)', 'z': 'variable(0.4)', 'k1': 0.3, 'k2': 1.7, 'k3': -0.9, 'k4': 0.45}},
    # literals whose magnitude makes the code printers switch to exponent notation (negative and positive exponents)
    'G4': {'eqs': ["d/dt * x = -x + 0.00002*z^2 + 3.0e-7*x*z - 0.000015 + 2500000.0*1e-7*z",
                   "d/dt * z = -z + 30000.0*0.001*x - 1.0e-12*x^3 + 12345678.9*0.00000001"],
           'vars': {'x': 'output(0.6)', 'z': 'variable(0.4)'}},
}

# two coupled nonlinear nodes with a fast time constant: an adaptive Runge-Kutta solver rejects steps on the way
STIFF = {'ops': {'sto': {'eqs': ["d/dt * x = (-x + 4.0*tanh(z) + u)/tau", "d/dt * z = (x - z^3)/tau2"],
                         'vars': {'x': 'output(0.5)', 'z': 'variable(0.1)', 'tau': 0.05, 'tau2': 0.2, 'u': 'input(0.0)'}}},
         'node_tpls': {'S': [['sto', {}]]}, 'edge_tpls': {}, 'share': True,
         'circuit': {'name': 'net', 'nodes': {'a': 'S', 'b': 'S'},
                     'edges': [['a/sto/x', 'b/sto/u', None, {'weight': 2.0}], ['b/sto/z', 'a/sto/u', None, {'weight': -1.5}]]}}


def basket(tier):
    out = []
    for name, op in list(C12.FUNC_OPS.items()) + list(EXTRA_OPS.items()):
        out.append((name, fun_spec(name, op), 'func'))
    W = gen.WEIGHTS
    nets = [
        ('edge1', [('a', 'L'), ('b', 'T1')], [['a/lin/x', 'b/t1/u', None, {'weight': 2.0}]]),
        ('edge2', [('a', 'SA'), ('b', 'T2')], [['a/sa/x', 'b/t2/u', None, {'weight': 2.0}], ['a/sa/z', 'b/t2/w', None, {'weight': -0.5}]]),
        ('alg_src', [('a', 'AO'), ('b', 'T1')], [['a/ao/m', 'b/t1/u', None, {'weight': 3.0}]]),
        ('recurrent', [('a', 'LT'), ('b', 'LT')], [['a/lin/x', 'b/t1/u', None, {'weight': 2.0}], ['b/lin/x', 'a/t1/u', None, {'weight': -0.5}],
                                                   ['a/lin/x', 'a/t1/u', None, {'weight': 0.25}]]),
        ('fanin3', [('a', 'L'), ('b', 'LO'), ('cc', 'T1')], [['a/lin/x', 'cc/t1/u', None, {'weight': 2.0}], ['b/lin/x', 'cc/t1/u', None, {'weight': 3.0}]]),
        ('intra', [('a', 'PT'), ('b', 'L')], [['b/lin/x', 'a/t1/u', None, {'weight': 1.0}]]),
        ('edge_tpl', [('a', 'L'), ('b', 'T2')], [['a/lin/x', 'b/t2/u', 'E1', {'weight': 2.0}], ['a/lin/x', 'b/t2/w', None, {'weight': 1.0}]]),
        ('three_same', [('a', 'LT'), ('b', 'LT'), ('cc', 'LT')], [['a/lin/x', 'b/t1/u', None, {'weight': 2.0}], ['b/lin/x', 'cc/t1/u', None, {'weight': 1.0}],
                                                                 ['cc/lin/x', 'a/t1/u', None, {'weight': -0.5}], ['a/lin/x', 'cc/t1/u', None, {'weight': 3.0}]]),
    ]
    for name, lt, edges in nets:
        s = gen.make_spec(lt, edges)
        out.append((name, s, 'net'))
        if name in ('edge1', 'recurrent'):
            out.append((name + '_hier', gen.wrap_hier(s, 'split'), 'net'))
    if tier == 'quick':
        keep = {'F1', 'F2', 'F3', 'G1', 'G2', 'G3', 'G4', 'edge1', 'edge2', 'recurrent', 'fanin3', 'edge_tpl', 'edge1_hier'}
        out = [o for o in out if o[0] in keep]
    return out


def cases(tier, seed):
    out = []
    for name, s, kind in basket(tier):
        for backend in ('default', 'torch', 'jax', 'fortran'):
            for prec in ('float64', 'float32'):
                for vec in (False, True):
                    for inplace in (True, False):
                        if backend == 'fortran' and (vec or not inplace):
                            continue
                        if backend == 'fortran' and tier == 'quick' and (prec == 'float32' or name not in ('F2', 'G2', 'G3', 'G4', 'edge2', 'edge_tpl')):
                            continue
                        if tier == 'quick' and prec == 'float32' and not vec:
                            continue
                        out.append({'kind': 'field', 'name': name, 'spec': s, 'backend': backend, 'prec': prec, 'vectorize': vec,
                                    'inplace': inplace, 'seed': seed})
    # trajectories with the same solver settings
    solvers = {'default': ('euler', 'heun', 'scipy'), 'torch': ('euler', 'scipy'), 'jax': ('euler', 'heun', 'scipy', 'diffrax'),
               'fortran': ('euler', 'heun', 'scipy')}
    for name, s, kind in basket(tier):
        if tier == 'quick' and name not in ('F1', 'G1', 'edge2', 'recurrent'):
            continue
        for backend in ('torch', 'jax', 'fortran'):
            for solver in solvers[backend]:
                for vec in ((True,) if backend != 'fortran' else (False,)):
                    out.append({'kind': 'traj', 'name': name, 'spec': s, 'backend': backend, 'solver': solver, 'vectorize': vec,
                                'prec': 'float64'})
    # adaptive solvers with their default tolerances on a model that makes them reject steps
    for backend in ('torch', 'jax', 'fortran'):
        for vec in ((False, True) if backend != 'fortran' else (False,)):
            out.append({'kind': 'traj', 'name': 'stiff', 'spec': STIFF, 'backend': backend, 'solver': 'scipy', 'vectorize': vec,
                        'prec': 'float64', 'loose': True})
    # extrinsic input with recording every 3rd step (each backend's own step counter), and Population / Connectivity
    # circuits with coupling edges (weighted sums over (target, source) pairs)
    INP = {'ops': {'io': {'eqs': ["d/dt * x = -x + u"], 'vars': {'x': 'output(0.2)', 'u': 'input(0.0)'}}},
           'node_tpls': {'I': [['io', {}]]}, 'edge_tpls': {}, 'share': True,
           'circuit': {'name': 'net', 'nodes': {'a': 'I', 'b': 'I'}, 'edges': []}}
    for backend in ('torch', 'jax', 'fortran'):
        for solver in [s_ for s_ in solvers[backend] if s_ in ('euler', 'heun')]:
            out.append({'kind': 'traj', 'name': 'input_sub3', 'spec': INP, 'backend': backend, 'solver': solver,
                        'vectorize': backend != 'fortran', 'prec': 'float64', 'input': 'a/io/u', 'sub': 3})
            # two input arrays (one step counter / time base for both)
            out.append({'kind': 'traj', 'name': 'two_inputs', 'spec': INP, 'backend': backend, 'solver': solver,
                        'vectorize': backend != 'fortran', 'prec': 'float64', 'input': ['a/io/u', 'b/io/u'], 'sub': 1})
        if backend != 'fortran':
            # one column per node, adaptive solver (row-wise interpolation helper of the backend)
            out.append({'kind': 'traj', 'name': 'input_columns', 'spec': INP, 'backend': backend, 'solver': 'scipy',
                        'vectorize': True, 'prec': 'float64', 'input': 'all/io/u', 'sub': 1, 'columns': 2})
    for edge_kind in ('alg', 'dyn', None):
        for W in ([[0.0, 2.0], [-0.5, 1.0]], [[1.0, 0.0], [3.0, 2.0]]):
            out.append({'kind': 'pop', 'backend': 'jax', 'pops': {'e': 2, 'i': 2},
                        'conns': [dict({'src': 'e', 'tgt': 'i', 'W': W}, **({'edge': edge_kind} if edge_kind else {})),
                                  {'src': 'i', 'tgt': 'e', 'W': [[1.5, -0.5], [0.25, 2.0]]}]})
    # roll-based delay buffers (backends with a mutable buffer)
    for backend in ('torch', 'fortran'):
        for vec in ((False, True) if backend == 'torch' else (False,)):
            out.append({'kind': 'delay', 'backend': backend, 'vectorize': vec})
    return out


def describe(tier, seed):
    return {'rule': 'feature basket (operators covering every function of the registries that the equation language exposes, '
                    'long right-hand sides that force Fortran line wrapping, circuits with weighted sums / matvec / index helpers, '
                    'edge templates, hierarchy) x backend{default,torch,jax,fortran} x precision{float64,float32} x vectorize x '
                    'vector-field convention{in-place,returned}: vector field per frontend variable at base point + all single '
                    'deviations vs the reference semantics, returned argument values; trajectories for every solver a backend '
                    'supports vs the default backend (tight tolerances; default tolerances on a stiff model with rejected steps); discrete delay buffers on torch/fortran; non-trivial = all',
            'bounds': {'basket': len(basket(tier))}}


def run_case(case):
    from .. import build, pool
    res = {'evals': 0, 'nontrivial': True}
    sig = {'features': [], 'backend': case['backend'], 'kind_case': case['kind'], 'name': case.get('name')}

    def viol(kind, **kw):
        res['viol'] = dict(kind=kind, sig=dict(sig, kind=kind), **kw)
        res['ok'] = False
        return res
    fname = f"c02_{abs(hash(json.dumps(case, sort_keys=True, default=str))) % 10 ** 9}"
    if case['kind'] == 'field':
        cfg = {'vectorize': case['vectorize'], 'backend': case['backend'], 'float_precision': case['prec']}
        if not case['inplace']:
            cfg['inplace_vectorfield'] = False
        if case['backend'] == 'fortran':
            cfg['file_name'] = fname
        r = C01.run_case({'spec': case['spec'], 'cfg': cfg, 'seed': case.get('seed', 0)})
        if not r.get('ok') and 'viol' in r:
            r['viol']['sig'] = dict(r['viol'].get('sig') or {}, backend=case['backend'], prec=case['prec'], name=case['name'],
                                    inplace=case['inplace'])
        r['nontrivial'] = True
        return r
    if case['kind'] == 'delay':
        return run_delay(case, res, sig, viol, fname)
    if case['kind'] == 'pop':
        return run_pop(case, res, sig, viol)
    # trajectories: same solver settings on the backend and on the default backend
    m = sp.refmodel(case['spec'])
    states = [p for p in m.state_vars() if not p.startswith('__e')]
    outs = {f'o{i}': p for i, p in enumerate(states)}
    frames = {}
    for backend in (case['backend'], 'default'):
        pool.fresh_state()
        solver = case['solver'] if backend != 'default' or case['solver'] != 'diffrax' else 'scipy'
        kw = dict(simulation_time=8 * DT, step_size=DT, sampling_step_size=DT, outputs=dict(outs), solver=solver,
                  backend=backend, vectorize=case['vectorize'], verbose=False, float_precision='float64', clear=True)
        if case.get('input'):
            base = 0.05 * np.arange(12, dtype=float) ** 2 - 0.3 * np.arange(12) + 0.2
            if isinstance(case['input'], list):
                inp = {p_: base * (1.0 + 0.5 * j) + 0.1 * j for j, p_ in enumerate(case['input'])}
            elif case.get('columns'):
                inp = {case['input']: np.stack([base * (1.0 + 0.5 * j) + 0.1 * j for j in range(case['columns'])], axis=1)}
            else:
                inp = {case['input']: base}
            kw.update(simulation_time=12 * DT, sampling_step_size=case['sub'] * DT, inputs=inp)
        if case.get('loose'):
            kw.update(simulation_time=2.0, step_size=0.01, sampling_step_size=0.1)
        elif solver in ('scipy', 'diffrax'):
            kw.update(rtol=1e-9, atol=1e-11)
        if backend == 'fortran':
            kw['file_name'] = fname
        try:
            frames[backend] = build.build_py(case['spec']).run(**kw)
        except Exception as e:
            sig['exc'] = type(e).__name__
            return viol('raises', on=backend, detail=f'{type(e).__name__}: {e}'[:300])
    a, b = np.asarray(frames[case['backend']].values, dtype=float), np.asarray(frames['default'].values, dtype=float)
    tol = 1e-9 if case['solver'] in ('euler', 'heun') else 1e-6
    res['evals'] = a.shape[0]
    if a.shape != b.shape or np.max(np.abs(a - b)) > tol * max(1.0, np.max(np.abs(b))):
        return viol('trajectory_differs', solver=case['solver'], got=a[:4].tolist(), expected=b[:4].tolist())
    res['outcome'] = hashlib.sha256(b.round(8).tobytes()).hexdigest()[:10]
    res['ok'] = True
    return res


def run_pop(case, res, sig, viol):
    """Population / Connectivity circuit on the backend and on the default backend: euler trajectories of all units"""
    from .. import pool
    from . import C16
    frames = {}
    outs = {pop: f'{pop}/{C16.POPOP[pop][0]}/{C16.POPOP[pop][1]}' for pop in case['pops']}
    for backend in (case['backend'], 'default'):
        pool.fresh_state()
        try:
            frames[backend] = C16.build_pop(case).run(simulation_time=8 * DT, step_size=DT, sampling_step_size=DT,
                                                      outputs=dict(outs), solver='euler', backend=backend, vectorize=True,
                                                      verbose=False, float_precision='float64', clear=True)
        except Exception as e:
            sig['exc'] = type(e).__name__
            return viol('raises', on=backend, detail=f'{type(e).__name__}: {e}'[:300])
    a, b = np.asarray(frames[case['backend']].values, dtype=float), np.asarray(frames['default'].values, dtype=float)
    res['evals'] = a.shape[0]
    if a.shape != b.shape or np.max(np.abs(a - b)) > 1e-9 * max(1.0, np.max(np.abs(b))):
        return viol('trajectory_differs', solver='euler', got=a[:4].tolist(), expected=b[:4].tolist())
    res['outcome'] = hashlib.sha256(b.round(8).tobytes()).hexdigest()[:10]
    res['ok'] = True
    return res


def run_delay(case, res, sig, viol, fname):
    from .. import build, pool
    from . import C09
    from ..refsem import solvers
    spec = C09.make(['r'], ['a', 'b'], [C09.edge('r', 'a', 3 * C09.DT, 0), C09.edge('r', 'b', None, 1)])
    m = sp.refmodel(spec)
    outs = {f'o{i}': p for i, p in enumerate(m.state_vars())}
    kw = dict(simulation_time=12 * C09.DT, step_size=C09.DT, sampling_step_size=C09.DT, outputs=dict(outs), solver='euler',
              backend=case['backend'], vectorize=case['vectorize'], verbose=False, float_precision='float64', clear=True)
    if case['backend'] == 'fortran':
        kw['file_name'] = fname
    try:
        df = build.build_py(spec).run(**kw)
    except Exception as e:
        sig['exc'] = type(e).__name__
        return viol('raises', detail=f'{type(e).__name__}: {e}'[:300])
    rows = solvers.euler_delayed(m, C09.DT, 11)
    for k, p in outs.items():
        exp = np.array([r[p] for r in rows])
        got = np.asarray(df[k], dtype=float)
        if got.shape != exp.shape or np.max(np.abs(got - exp)) > 1e-9 * max(1.0, np.max(np.abs(exp))):
            return viol('delay_trajectory', var=p, got=got.tolist(), expected=exp.tolist())
    res['evals'] = 12
    res['outcome'] = 'delay'
    res['ok'] = True
    return res
