"""C09 - discrete edge delays shift the source by round(delay/dt) steps (fixed-step solver)."""
import hashlib
import itertools

import numpy as np

from .. import spec as sp

LEVEL = 'exploration'
BACKENDS = ()
CHUNK = 4
DT = 0.125
DELAYS = [None, 2 * DT, 3 * DT, 2.4 * DT, 2.6 * DT, 5 * DT]
WEIGHTS = [2.0, 1.0, -0.5, 3.0]

OPS = {'ro': {'eqs': ["d/dt * z = c"], 'vars': {'z': 'output(0.25)', 'c': 0.5}},
       'fo': {'eqs': ["d/dt * z = c - 0.3*fb"], 'vars': {'z': 'output(0.25)', 'c': 0.5, 'fb': 'input(0.0)'}},
       'to': {'eqs': ["d/dt * v = -v + u"], 'vars': {'v': 'output(0.1)', 'u': 'input(0.0)'}},
       # an operator that reads z of another operator of its own node
       'rd': {'eqs': ["d/dt * q = -q + z"], 'vars': {'q': 'output(0.05)', 'z': 'input(0.0)'}},
       # a source operator whose delayed variable z is NOT its output, and a reader of its real output
       'rz': {'eqs': ["d/dt * xo = -2.0*xo + 1.0", "d/dt * z = c"],
              'vars': {'xo': 'output(0.2)', 'z': 'variable(0.25)', 'c': 0.5}},
       'rx': {'eqs': ["d/dt * q = -q + xo"], 'vars': {'q': 'output(0.05)', 'xo': 'input(0.0)'}}}


def make(sources, targets, edges, feedback=False):
    tpls, nodes = {}, {}
    for i, s in enumerate(sources):
        tpls[f'R{s}'] = [['fo' if feedback else 'ro', {'c': 0.5 + 0.25 * i, 'z': 0.25 + 0.5 * i}]]
        nodes[s] = f'R{s}'
    for i, t in enumerate(targets):
        tpls[f'T{t}'] = [['to', {'v': round(0.1 * (i + 1), 2)}]]
        nodes[t] = f'T{t}'
    return {'ops': OPS, 'node_tpls': tpls, 'edge_tpls': {}, 'share': True,
            'circuit': {'name': 'net', 'nodes': nodes, 'edges': edges}}


def edge(src, tgt, d, i, var='z', tvar='u', sop=None):
    a = {'weight': WEIGHTS[i % len(WEIGHTS)]}
    if d is not None:
        a['delay'] = d
    sop = sop or ('ro')
    return [f'{src}/{sop}/{var}', f'{tgt}/to/{tvar}', None, a]


def cases(tier, seed):
    out = []
    vecs = (False, True)

    def add(spec, tag):
        for v in vecs:
            out.append({'spec': spec, 'vectorize': v, 'tag': tag, 'seed': seed})
            if tier != 'quick' or tag in ('one', 'shared_source', 'feedback', 'two_operator_nodes', 'intra_node_reader'):
                # Heun evaluates the function twice per step: the buffers still advance once per step
                out.append({'spec': spec, 'vectorize': v, 'tag': tag, 'seed': seed, 'solver': 'heun'})
    D = DELAYS
    for d in D:
        add(make(['r'], ['a'], [edge('r', 'a', d, 0)]), 'one')
    for d1, d2 in itertools.product(D, D):
        add(make(['r'], ['a', 'b'], [edge('r', 'a', d1, 0), edge('r', 'b', d2, 1)]), 'shared_source')
        add(make(['r'], ['a'], [edge('r', 'a', d1, 0), edge('r', 'a', d2, 1)]), 'parallel')
        add(make(['r', 'q'], ['a'], [edge('r', 'a', d1, 0), edge('q', 'a', d2, 1)]), 'shared_target')
    # two parallel edges between one pair of variables plus a further edge from the same source, listed before / after
    for d1, d2, d3 in itertools.product(D[1:4], D[1:4], D[:4]):
        if d1 == d2:
            continue
        for order in ((0, 1, 2), (2, 0, 1), (0, 2, 1)):
            es = [edge('r', 'a', d1, 0), edge('r', 'a', d2, 1), edge('r', 'b', d3, 2)]
            add(make(['r'], ['a', 'b'], [es[k] for k in order]), 'parallel_plus')
    # feedback loop: delayed edge from the target back to the source
    for d1, d2 in itertools.product(D[1:4], D[:3]):
        s = make(['r'], ['a'], [edge('r', 'a', d1, 0, sop='fo')], feedback=True)
        e = {'weight': 1.5}
        if d2 is not None:
            e['delay'] = d2
        s['circuit']['edges'].append(['a/to/v', 'r/fo/fb', None, e])
        add(s, 'feedback')
    # nodes with two operators (source and target operator in one node, either declaration order), and a chain in
    # which the delayed source is itself driven through a delayed edge
    for d1, d2 in itertools.product(D[1:], D):
        for order in (('ro', 'to'), ('to', 'ro')):
            tpls = {f'M{i}': [[o, ({'c': 0.5 + 0.25 * i, 'z': 0.25 + 0.5 * i} if o == 'ro' else {'v': 0.1 * (i + 1)})]
                              for o in order] for i in (0, 1)}
            e = [['m0/ro/z', 'm1/to/u', None, {'weight': 2.0, 'delay': d1}], ['m1/ro/z', 'm0/to/u', None, {'weight': -0.5}]]
            if d2 is not None:
                e[1][3]['delay'] = d2
            add({'ops': OPS, 'node_tpls': tpls, 'edge_tpls': {}, 'share': True,
                 'circuit': {'name': 'net', 'nodes': {'m0': 'M0', 'm1': 'M1'}, 'edges': e}}, 'two_operator_nodes')
        s = make(['r'], ['a', 'b'], [edge('r', 'a', d2, 0)])
        s['circuit']['edges'].append(['a/to/v', 'b/to/u', None, {'weight': 3.0, 'delay': d1}])
        add(s, 'chain')
    # the delayed source variable is also read by another operator of its own node (which sees the present value)
    for d1, d2 in itertools.product(D[1:], D[:3]):
        for order in (('ro', 'rd'), ('rd', 'ro')):
            tpls = {'M': [[o, {}] for o in order], 'Ta': [['to', {}]], 'Tb': [['to', {'v': 0.2}]]}
            e = [['m/ro/z', 'a/to/u', None, {'weight': 2.0, 'delay': d1}], ['m/ro/z', 'b/to/u', None, {'weight': 1.0}]]
            if d2 is not None:
                e[1][3]['delay'] = d2
            add({'ops': OPS, 'node_tpls': tpls, 'edge_tpls': {}, 'share': True,
                 'circuit': {'name': 'net', 'nodes': {'m': 'M', 'a': 'Ta', 'b': 'Tb'}, 'edges': e}}, 'intra_node_reader')
    # ... and the delayed edge leaves a variable that is not the output of its operator
    for d1 in D[1:]:
        for order in (('rz', 'rx'), ('rx', 'rz')):
            tpls = {'M': [[o, {}] for o in order], 'Ta': [['to', {}]]}
            add({'ops': OPS, 'node_tpls': tpls, 'edge_tpls': {}, 'share': True,
                 'circuit': {'name': 'net', 'nodes': {'m': 'M', 'a': 'Ta'},
                             'edges': [['m/rz/z', 'a/to/u', None, {'weight': 2.0, 'delay': d1}]]}}, 'intra_node_reader')
    # matrix (Connectivity) edges: two connections that leave one population variable with their own delays
    from . import C16
    T = C16.DT
    for d1, d2 in itertools.product((2 * T, 3 * T, 2.6 * T, 5 * T), (None, 2 * T, 3 * T, 5 * T)):
        for W in ([[0.0, 2.0], [-0.5, 0.0]], [[1.0, 0.0], [3.0, 2.0]]):
            c2 = {'src': 'e', 'tgt': 'i', 'W': [[1.5, -0.5], [0.25, 2.0]]}
            if d2:
                c2['delay'] = d2
            out.append({'pop': True, 'pops': {'e': 2, 'i': 2}, 'conns': [{'src': 'e', 'tgt': 'e', 'W': W, 'delay': d1}, c2],
                        'tag': 'connectivity_two_delays', 'seed': seed})
    if tier != 'quick':
        for d1, d2, d3 in itertools.product(D, D, D):
            add(make(['r'], ['a', 'b', 'cc'], [edge('r', 'a', d1, 0), edge('r', 'b', d2, 1), edge('r', 'cc', d3, 2)]),
                'shared_source3')
        for d1, d2, d3 in itertools.product(D[:4], D[:4], D[:4]):
            add(make(['r', 'q'], ['a', 'b'], [edge('r', 'a', d1, 0), edge('q', 'a', d2, 1), edge('q', 'b', d3, 2)]),
                'mixed')
    return out


def describe(tier, seed):
    return {'rule': 'ramp sources (every step a distinct value) x 1-3 targets x per-edge delay in {none, 2dt, 3dt, 2.4dt, '
                    '2.6dt, 5dt} for shared-source, parallel, shared-target, feedback, chain and two-operator-node topologies, two delayed Connectivity objects from one population variable x vectorize, the delayed source also read by another operator of its own node; euler and (a slice) heun '
                    'trajectories of run() row by row vs the reference recurrence with explicit history (src[k-D], 0 before '
                    'start, undelayed edges src[k]); non-trivial = at least one delayed edge',
            'bounds': {'targets': 2 if tier == 'quick' else 3, 'steps': 14}}


def run_case(case):
    from .. import build
    from ..refsem import solvers
    if case.get('pop'):
        from . import C16
        return C16.run_case(case)
    spec = case['spec']
    res = {'evals': 0}
    nodes, edges = sp.flatten(spec)
    delays = [e[3].get('delay') for e in edges]
    res['nontrivial'] = any(delays)
    feats = []
    by_src = {}
    for e in edges:
        by_src.setdefault(e[0], []).append(e[3].get('delay'))
    if any(any(d for d in ds) and any(d is None for d in ds) for ds in by_src.values()):
        feats.append('mixed_delayed_undelayed_same_source')
    pair = {}
    for e in edges:
        pair.setdefault((e[0], e[1]), []).append(e[3].get('delay'))
    if any(len(ds) > 1 and all(ds) for ds in pair.values()):
        feats.append('parallel_edges_both_delayed')
    sig = {'features': feats, 'vectorize': case['vectorize'], 'tag': case['tag']}

    def viol(kind, **kw):
        res['viol'] = dict(kind=kind, sig=dict(sig, kind=kind), **kw)
        res['ok'] = False
        return res
    steps = 14
    T = steps * DT
    m = sp.refmodel(spec)
    outs = {f'o{i}': p for i, p in enumerate(m.state_vars())}
    try:
        circ = build.build_py(spec)
        df = circ.run(simulation_time=T, step_size=DT, sampling_step_size=DT, outputs=dict(outs),
                      solver=case.get('solver', 'euler'),
                      backend='default', vectorize=case['vectorize'], verbose=False, float_precision='float64',
                      clear=True)
    except Exception as e:
        sig['exc'] = type(e).__name__
        return viol('raises', detail=f'{type(e).__name__}: {e}'[:300])
    rows = (solvers.heun_delayed if case.get('solver') == 'heun' else solvers.euler_delayed)(m, DT, steps - 1)
    res['evals'] = steps
    for k, p in outs.items():
        exp = np.array([r[p] for r in rows])
        got = np.asarray(df[k], dtype=float)
        if got.shape != exp.shape or np.max(np.abs(got - exp)) > 1e-9 * max(1.0, np.max(np.abs(exp))):
            first = int(np.argmax(np.abs(got - exp) > 1e-9)) if got.shape == exp.shape else -1
            return viol('trajectory', var=p, first_bad_step=first, got=got.tolist(), expected=exp.tolist())
    res['outcome'] = hashlib.sha256(np.asarray(df.values, dtype=float).round(9).tobytes()).hexdigest()[:10]
    res['ok'] = True
    return res
