"""C15 - YAML, Python and inherited definitions of a model are equivalent."""
import itertools
import json
import re

import numpy as np

from .. import gen, spec as sp
from . import C01

LEVEL = 'exploration'
BACKENDS = ()
CHUNK = 4

IDENTS = ['r', 'rr', 'r_in', 'm_in2', 'inn', 'r2', 'xr']


def model_cases(tier, seed):
    out = []
    seen = set()
    nodes = (['L', 'SA', 'AO', 'T1', 'T2', 'LT', 'LS', 'PT', 'LO', 'XV'] if tier == 'quick' else gen.QUICK_NODES) + ['LTO', 'TLO']

    def add(s, tag):
        key = json.dumps(s, sort_keys=True)
        if key in seen or gen.has_alg_loop(s):
            return
        seen.add(key)
        for fe in ('yaml', 'roundtrip'):
            for vec in (False, True):
                out.append({'kind': 'model', 'spec': s, 'cfg': {'vectorize': vec, 'frontend': fe}, 'tag': tag, 'seed': seed})
    for lt, edges in gen.flat_circuits(1, 1, nodes):
        add(gen.make_spec(lt, edges), 'flat1')
    for lt, edges in gen.flat_circuits(2, 1 if tier == 'quick' else 2, nodes, with_self=False):
        s = gen.make_spec(lt, edges)
        add(s, 'flat2')
        if edges and lt[0][1] in ('L', 'SA', 'LO') and lt[1][1] in ('T1', 'T2', 'LT'):
            for mode in ('split', 'dup', 'deep'):
                add(gen.wrap_hier(s, mode), 'hier_' + mode)
            e2 = [[edges[0][0], edges[0][1], 'E1', dict(edges[0][3])]] + [list(e) for e in edges[1:]]
            add(gen.make_spec(lt, e2), 'edge_tpl')
            e3 = [[edges[0][0], edges[0][1], 'E1', dict(edges[0][3], **{'e1/ge': 1.75})]]
            add(gen.make_spec(lt, e3), 'edge_tpl_attr')
    # templates that share their NAME but not their values (node templates called `pop`, edge templates called
    # `coupling`): to_yaml has to keep them apart
    for nn in (2, 3):
        for ne in (1, 2):
            tn = ['NA', 'NB', 'NC'][:nn]
            sp_ = {'ops': {o: gen.OPLIB[o] for o in ('lin', 't1', 'e1')},
                   'node_tpls': dict({t: [['lin', {'k': 1.0 + 2.0 * i, 'x': 0.5 + 0.15 * i}]] for i, t in enumerate(tn)},
                                     T1=[['t1', {}]]),
                   'edge_tpls': {e: [['e1', {'ge': g}]] for e, g in (('EA', 2.0), ('EB', -3.0))[:ne]}, 'share': True,
                   'tpl_names': dict({t: 'pop' for t in tn}, **{e: 'coupling' for e in ('EA', 'EB')[:ne]}),
                   'circuit': {'name': 'net', 'nodes': dict({f'n{i}': t for i, t in enumerate(tn)}, dd='T1'),
                               'edges': [[f'n{i}/lin/x', 'dd/t1/u', ('EA', 'EB')[i % ne], {'weight': 1.0 + 0.5 * i}]
                                         for i in range(nn)]}}
            for vec in (False, True):
                out.append({'kind': 'model', 'spec': sp_, 'cfg': {'vectorize': vec, 'frontend': 'roundtrip'},
                            'tag': 'same_template_names', 'seed': seed})
    # shared operators with different per-node overrides
    for k2 in (3.5, 0.25):
        s = gen.make_spec([('a', 'L'), ('b', 'LO'), ('cc', 'T1')],
                          [['a/lin/x', 'cc/t1/u', None, {'weight': 2.0}], ['b/lin/x', 'cc/t1/u', None, {'weight': -0.5}]])
        s['node_tpls']['LO'] = [['lin', {'k': k2, 'x': 0.8}]]
        add(s, 'shared_op_overrides')
    return out


def token_replace(eq, old, new):
    """whole-identifier occurrences only"""
    return re.sub(r'(?<![A-Za-z0-9_])' + re.escape(old) + r'(?![A-Za-z0-9_])', new, eq)


def term_replace(eq, old, new):
    """occurrences of the term `old`; where the term starts/ends with an identifier character the occurrence must not
    continue into a longer identifier on that side"""
    idc = r'[A-Za-z0-9_]'
    pre = r'(?<!' + idc + ')' if re.match(idc, old[0]) else ''
    post = r'(?!' + idc + ')' if re.match(idc, old[-1]) else ''
    return re.sub(pre + re.escape(old) + post, new.replace('\\', '\\\\'), eq)


def edit_cases(tier, seed):
    out = []
    ops_chars = ['+', '-', '*', '/', '^', '(', ')', ' ']
    base_eqs = []
    # every identifier at the start / middle / end of an equation and next to each operator character
    for a, b, c in itertools.permutations(IDENTS, 3):
        base_eqs.append(f"d/dt * q = {a} + {b}*{c}")
        if tier != 'quick':
            base_eqs.append(f"d/dt * q = ({a}-{b})/{c}")
            base_eqs.append(f"d/dt * q = {a}^2*{b} - {c}")
    base_eqs = base_eqs[::(3 if tier == 'quick' else 1)]
    for i, eq in enumerate(base_eqs):
        ids = [x for x in IDENTS if re.search(r'(?<![A-Za-z0-9_])' + x + r'(?![A-Za-z0-9_])', eq.split('=')[1])]
        for tgt in ids:
            out.append({'kind': 'edit', 'eq': eq, 'ids': ids, 'edit': {'replace': {tgt: 'zz'}}, 'seed': seed})
            if (i + len(tgt)) % 3 == 0:
                out.append({'kind': 'edit', 'eq': eq, 'ids': ids, 'edit': {'replace': {tgt: f'({tgt}*k2)'}}, 'seed': seed})
        if i % 4 == 0:
            out.append({'kind': 'edit', 'eq': eq, 'ids': ids, 'edit': {'append': f'- k2*{ids[0]}'}, 'seed': seed})
            out.append({'kind': 'edit', 'eq': eq, 'ids': ids, 'edit': {'add': [f"d/dt * p = -p + {ids[-1]}"]}, 'seed': seed})
            rem = f' + {ids[1]}*{ids[2]}' if '+' in eq else f'- {ids[-1]}'
            out.append({'kind': 'edit', 'eq': eq, 'ids': ids, 'edit': {'remove': [rem]}, 'seed': seed})
            # several edits in one dictionary; the added equations contain the replaced / removed terms themselves and
            # are taken over literally
            for tgt in ids:
                out.append({'kind': 'edit', 'eq': eq, 'ids': ids, 'seed': seed,
                            'edit': {'replace': {tgt: 'zz'}, 'add': [f"d/dt * p = -p + {tgt}*k2"]}})
            out.append({'kind': 'edit', 'eq': eq, 'ids': ids, 'seed': seed,
                        'edit': {'append': f'- k2*{ids[0]}', 'add': [f"d/dt * p = -p + {ids[-1]}"]}})
            out.append({'kind': 'edit', 'eq': eq, 'ids': ids, 'seed': seed,
                        'edit': {'remove': [rem], 'add': [f"d/dt * p = -p{rem}"]}})
            out.append({'kind': 'edit', 'eq': eq, 'ids': ids, 'seed': seed,
                        'edit': {'replace': {ids[0]: f'({ids[0]}*k2)'}, 'remove': [rem], 'append': f'- {ids[1]}'}})
    # terms that start with an operator/blank and end with an identifier that is a prefix of a longer identifier
    pairs = [(a, b) for a in IDENTS for b in IDENTS if a != b and b.startswith(a)]
    for short, long_ in pairs:
        for first in (short, long_):
            second = long_ if first == short else short
            eq = f"d/dt * q = zz + k2*{first} + k2*{second}"
            ids = [short, long_]
            out.append({'kind': 'edit', 'eq': eq, 'ids': ids, 'edit': {'remove': [f' + k2*{short}']}, 'seed': seed})
            out.append({'kind': 'edit', 'eq': eq, 'ids': ids, 'edit': {'replace': {f'k2*{short}': f'k2*xr9'}}, 'seed': seed,
                        'extra': {'xr9': 0.123}})
            out.append({'kind': 'edit', 'eq': f"d/dt * q = ({short}-zz)*k2 - {long_}/zz", 'ids': ids,
                        'edit': {'replace': {f'({short}': f'(xr9'}}, 'seed': seed, 'extra': {'xr9': 0.123}})
    # inheritance chains of length 1-3 with variable overrides
    for depth in (1, 2, 3):
        for over in ({'k': 4.0}, {'x': 'output(0.9)'}, {'k': 0.5, 'c': 1.5}):
            out.append({'kind': 'chain', 'depth': depth, 'override': over, 'seed': seed})
    return out


LIB_YAML = """%YAML 1.2
---

op:
  base: OperatorTemplate
  equations:
    - "d/dt * x = -k*x + u"
  variables:
    x: output(0.5)
    k: 1.0
    u: input(0.0)

eop:
  base: OperatorTemplate
  equations:
    - "m = g*s"
  variables:
    m: output
    s: input
    g: 2.0

et:
  base: EdgeTemplate
  operators:
    - eop

drive:
  base: NodeTemplate
  operators:
    - op

pop:
  base: NodeTemplate
  operators:
    - op

Sub:
  base: CircuitTemplate
  nodes:
    p: pop
  edges: []
"""

MODEL_YAML_HEAD = """%YAML 1.2
---

pop:
  base: NodeTemplate
  operators:
    pkg15.lib.op:
      k: 3.0

eop:
  base: pkg15.lib.eop
  variables:
    g: 5.0

et:
  base: EdgeTemplate
  operators:
    - eop

Sub:
  base: CircuitTemplate
  nodes:
    p: pop
  edges: []
"""

XREF_NODES = {'a': ('pkg15.lib.drive', 1.0), 'b': ('pop', 3.0), 'cc': ('pkg15.lib.pop', 1.0)}
XREF_EDGES = {'b': ('pkg15.lib.et', 2.0), 'cc': ('et', 5.0)}
XREF_CIRCS = {'c1': ('pkg15.lib.Sub', 1.0), 'c2': ('Sub', 3.0), 'c3': ('pkg15.lib.Sub', 1.0)}


def xref_cases(tier, seed):
    """references between YAML files: a bare name is resolved relative to the file that uses it, whatever was
    referenced before it; all orders of the qualified / bare entries of nodes, edges and circuits. The circuit's own
    edge operator has the NAME of the library's edge operator (and other values): both are used in one circuit."""
    out = []
    for order in itertools.permutations(XREF_NODES):
        for eorder in itertools.permutations(XREF_EDGES):
            out.append({'kind': 'xref', 'what': 'nodes', 'order': list(order), 'eorder': list(eorder), 'seed': seed})
    for order in itertools.permutations(XREF_CIRCS):
        out.append({'kind': 'xref', 'what': 'circuits', 'order': list(order), 'seed': seed})
    return out


def run_xref(case):
    import os
    import sys
    from pyrates import CircuitTemplate
    from .. import impl
    res = {'evals': 1, 'nontrivial': True}
    sig = {'features': ['cross_file_reference'], 'tag': 'xref_' + case['what']}
    os.makedirs('pkg15', exist_ok=True)
    open('pkg15/__init__.py', 'w').close()
    with open('pkg15/lib.yaml', 'w') as f:
        f.write(LIB_YAML)
    lines = [MODEL_YAML_HEAD, 'Net:', '  base: CircuitTemplate']
    x0 = 0.5
    if case['what'] == 'nodes':
        lines += ['  nodes:'] + [f'    {n}: {XREF_NODES[n][0]}' for n in case['order']] + ['  edges:']
        lines += [f'    - [a/op/x, {t}/op/u, {XREF_EDGES[t][0]}, {{weight: 1.0}}]' for t in case['eorder']]
        exp = {f'{n}/op/x': -XREF_NODES[n][1] * x0 + (XREF_EDGES[n][1] * x0 if n in XREF_EDGES else 0.0) for n in XREF_NODES}
    else:
        lines += ['  circuits:'] + [f'    {c}: {XREF_CIRCS[c][0]}' for c in case['order']] + ['  edges: []']
        exp = {f'{c}/p/op/x': -XREF_CIRCS[c][1] * x0 for c in XREF_CIRCS}
    with open('pkg15/model.yaml', 'w') as f:
        f.write('\n'.join(lines) + '\n')
    if os.getcwd() not in sys.path:
        sys.path.insert(0, os.getcwd())
    try:
        circ = CircuitTemplate.from_yaml('pkg15.model.Net')
        C = impl.compile_field(circ, {'vectorize': False})
        got = C.call(C.y0(), t=0)
        obs = {k: float(got[C.position(k)[0]]) for k in exp}
    except Exception as e:
        sig['exc'] = type(e).__name__
        res['viol'] = dict(kind='raises', sig=dict(sig, kind='raises'), detail=f'{type(e).__name__}: {e}'[:200])
        res['ok'] = False
        return res
    if any(abs(obs[k] - exp[k]) > 1e-12 for k in exp):
        res['viol'] = dict(kind='wrong_template_resolved', sig=dict(sig, kind='wrong_template_resolved'), got=obs, expected=exp)
        res['ok'] = False
        return res
    res['outcome'] = 'xref_' + case['what']
    res['ok'] = True
    return res


DERIVE_HEAD = """%YAML 1.2
---

op:
  base: OperatorTemplate
  equations:
    - "d/dt * x = -k*x + u"
  variables:
    x: output(0.5)
    k: 1.0
    u: input(0.0)

pa:
  base: NodeTemplate
  operators:
    op:
      k: 2.0

pb:
  base: NodeTemplate
  operators:
    op:
      k: 4.0

pc:
  base: NodeTemplate
  operators:
    op:
      k: 6.0

pd:
  base: NodeTemplate
  operators:
    op:
      k: 8.0

pb2:
  base: pb

pd3:
  base: pd2

pd2:
  base: pd

base_net:
  base: CircuitTemplate
  nodes:
    a: pa
    b: pb
  edges:
    - [a/op/x, b/op/u, null, {weight: 2.0}]
"""
DERIVE_K = {'pa': 2.0, 'pb': 4.0, 'pc': 6.0, 'pd': 8.0, 'pb2': 4.0, 'pd3': 8.0}


def derive_cases(tier, seed):
    """circuits derived via base: that override inherited node keys, add nodes and add edges, in every combination"""
    out = []
    for override in ({}, {'a': 'pc'}, {'b': 'pc'}, {'a': 'pd', 'b': 'pc'}, {'b': 'pb2'}, {'a': 'pd3'}):
        for added in ({}, {'cc': 'pd'}, {'cc': 'pa', 'dd': 'pb'}, {'cc': 'pb2', 'dd': 'pd3'}):
            for extra_edges in ([], [['b/op/x', 'a/op/u', 0.5]]):
                for order in ('override_first', 'added_first'):
                    if not override and not added and not extra_edges:
                        continue
                    if order == 'added_first' and not (override and added):
                        continue
                    edges = [list(e) for e in extra_edges]
                    if added:
                        edges.append([f'{list(added)[0]}/op/x', 'b/op/u', -1.5])
                    out.append({'kind': 'derive', 'override': override, 'added': added, 'edges': edges, 'order': order,
                                'seed': seed})
    return out


def run_derive(case):
    from pyrates import CircuitTemplate
    from .. import impl
    res = {'evals': 1, 'nontrivial': True}
    sig = {'features': ['derived_circuit'], 'tag': 'derive'}
    items = list(case['override'].items()) + list(case['added'].items())
    if case['order'] == 'added_first':
        items = list(case['added'].items()) + list(case['override'].items())
    lines = [DERIVE_HEAD, 'derived_net:', '  base: base_net']
    if items:
        lines += ['  nodes:'] + [f'    {k}: {v}' for k, v in items]
    if case['edges']:
        lines += ['  edges:'] + [f'    - [{s}, {t}, null, {{weight: {w}}}]' for s, t, w in case['edges']]
    with open('derive15.yaml', 'w') as f:
        f.write('\n'.join(lines) + '\n')
    nodes = dict({'a': 'pa', 'b': 'pb'}, **case['override'])
    nodes.update(case['added'])
    edges = [['a/op/x', 'b/op/u', 2.0]] + case['edges']
    exp = {}
    for n, t in nodes.items():
        exp[f'{n}/op/x'] = -DERIVE_K[t] * 0.5 + sum(w * 0.5 for s_, t_, w in edges if t_ == f'{n}/op/u')
    try:
        circ = CircuitTemplate.from_yaml('derive15/derived_net')
        C = impl.compile_field(circ, {'vectorize': False})
        got = C.call(C.y0(), t=0)
        if sorted(C.svm) != sorted(exp):
            res['viol'] = dict(kind='derived_node_set', sig=dict(sig, kind='derived_node_set'), got=sorted(C.svm), expected=sorted(exp))
            res['ok'] = False
            return res
        obs = {k_: float(got[C.position(k_)[0]]) for k_ in exp}
    except Exception as e:
        sig['exc'] = type(e).__name__
        res['viol'] = dict(kind='raises', sig=dict(sig, kind='raises'), detail=f'{type(e).__name__}: {e}'[:200])
        res['ok'] = False
        return res
    if any(abs(obs[k_] - exp[k_]) > 1e-12 for k_ in exp):
        res['viol'] = dict(kind='derived_circuit_differs', sig=dict(sig, kind='derived_circuit_differs'), got=obs, expected=exp)
        res['ok'] = False
        return res
    res['outcome'] = 'derive'
    res['ok'] = True
    return res


def hier_rt_cases(tier, seed):
    """one sub-circuit object used for several branches, update_var on some of them, then to_yaml -> from_yaml"""
    out = []
    upd_sets = [[], [['c2/a/so/k', 0.5]], [['c1/b/so/k', 4.5], ['c3/a/so/x', 0.9]], [['c2/a/so/k', 0.5], ['c3/a/so/k', 0.75]],
                [['c2/all/so/k', 1.25]], [['c1/a/so/k', 0.5], ['c2/a/so/k', 0.5]]]
    for nb in (2, 3):
        for upd in upd_sets:
            if any(int(k[1]) > nb for k, _ in upd):
                continue
            out.append({'kind': 'hier_rt', 'branches': nb, 'updates': upd, 'seed': seed})
    return out


def run_hier_rt(case):
    from pyrates import OperatorTemplate, NodeTemplate, CircuitTemplate, clear_frontend_caches
    from .. import impl
    res = {'evals': 1, 'nontrivial': bool(case['updates'])}
    sig = {'features': ['hierarchy_round_trip'], 'tag': 'hier_rt'}
    so = OperatorTemplate('so', equations=["d/dt * x = -k*x"], variables={'x': 'output(0.6)', 'k': 1.5})
    sub = CircuitTemplate('sub', nodes={'a': NodeTemplate('na', operators=[so]), 'b': NodeTemplate('nb', operators={so: {'k': 2.5}})})
    labels = [f'c{i + 1}' for i in range(case['branches'])]
    top = CircuitTemplate('top', circuits={l: sub for l in labels})
    exp = {f'{l}/{n}/so/{v}': val for l in labels for n, kk in (('a', 1.5), ('b', 2.5)) for v, val in (('k', kk), ('x', 0.6))}
    try:
        for path, val in case['updates']:
            top.update_var(node_vars={path: val})
            *node, op, var = path.split('/')
            for key in exp:
                parts = key.split('/')
                if parts[2:] == [op, var] and all(a == 'all' or a == b for a, b in zip(node, parts[:2])):
                    exp[key] = val
        top.to_yaml('hier_rt.yaml')
        clear_frontend_caches()
        loaded = CircuitTemplate.from_yaml('hier_rt/top')
        C = impl.compile_field(loaded, {'vectorize': False})
        y0, dy = C.y0(), C.call(C.y0(), t=0)
        got = {}
        for l in labels:
            for n in ('a', 'b'):
                pos = C.position(f'{l}/{n}/so/x')[0]
                got[f'{l}/{n}/so/x'] = float(y0[pos])
                got[f'{l}/{n}/so/k'] = -float(dy[pos]) / float(y0[pos])
    except Exception as e:
        sig['exc'] = type(e).__name__
        res['viol'] = dict(kind='raises', sig=dict(sig, kind='raises'), detail=f'{type(e).__name__}: {e}'[:200])
        res['ok'] = False
        return res
    bad = {k: (got[k], exp[k]) for k in exp if abs(got[k] - exp[k]) > 1e-9}
    if bad:
        res['viol'] = dict(kind='round_trip_differs', sig=dict(sig, kind='round_trip_differs'), wrong=bad)
        res['ok'] = False
        return res
    res['outcome'] = 'hier_rt'
    res['ok'] = True
    return res


def cases(tier, seed):
    return model_cases(tier, seed) + edit_cases(tier, seed) + xref_cases(tier, seed) + derive_cases(tier, seed) + \
        hier_rt_cases(tier, seed)


def describe(tier, seed):
    return {'rule': '(a) C01-style models through an own YAML emitter -> from_yaml, (b) python classes -> to_yaml -> from_yaml '
                    '(per-node overrides, shared operators, edge templates with attributes, hierarchy), both compared per '
                    'frontend variable with the reference semantics at base point + single deviations; (c) equation edits '
                    '(replace/remove/append/add) over identifier sets that contain one another with each identifier at every '
                    'position, expected equations by token-level editing, and base: chains of length 1-3 with overrides; (d) references between two YAML files (qualified and bare '
                    'names that exist in both files) in every order of the node / edge / circuit entries; (e) circuits derived via base: '
                    'that override inherited node keys, add nodes and add edges; (f) round trips of templates that share a name, and of hierarchies whose branches share one sub-circuit object and were updated differently; derived node templates without own operators; '
                    'non-trivial = all', 'bounds': {'nodes': 2, 'chain': 3}}


def run_case(case):
    if case['kind'] == 'model':
        r = C01.run_case({'spec': case['spec'], 'cfg': case['cfg'], 'seed': case.get('seed', 0)})
        if not r.get('ok') and 'viol' in r:
            # a deviation from the reference that the Python-class definition of the same model shows identically is a
            # defect of the compiler (C01's subject), not a difference between the frontends
            from .. import pool
            pool.fresh_state()
            rp = C01.run_case({'spec': case['spec'], 'cfg': dict(case['cfg'], frontend='python'), 'seed': case.get('seed', 0)})
            vp, vy = rp.get('viol') or {}, r['viol']
            same = (not rp.get('ok')) and vp.get('kind') == vy.get('kind') and vp.get('var') == vy.get('var') and \
                (vp.get('got') == vy.get('got') or (isinstance(vp.get('got'), float) and isinstance(vy.get('got'), float)
                                                   and abs(vp['got'] - vy['got']) <= 1e-12 * max(1.0, abs(vy['got'])))) and \
                str(vp.get('detail')) == str(vy.get('detail'))
            if same:
                return {'ok': True, 'nontrivial': True, 'evals': r.get('evals', 0), 'outcome': 'same_deviation_in_python_frontend',
                        'shared_compiler_defect': True}
            r['viol']['sig'] = dict(r['viol'].get('sig') or {}, frontend=case['cfg']['frontend'], tag=case['tag'])
            feats = list(r['viol']['sig'].get('features') or [])
            if case['cfg']['frontend'] == 'roundtrip' and any(ov for tpl in case['spec']['node_tpls'].values() for _, ov in tpl):
                feats.append('per_node_overrides')
            r['viol']['sig']['features'] = feats
        r['nontrivial'] = True
        return r
    if case['kind'] == 'edit':
        return run_edit(case)
    if case['kind'] == 'xref':
        return run_xref(case)
    if case['kind'] == 'derive':
        return run_derive(case)
    if case['kind'] == 'hier_rt':
        return run_hier_rt(case)
    return run_chain(case)


def run_edit(case):
    from pyrates import OperatorTemplate, NodeTemplate, CircuitTemplate
    from .. import impl
    import copy
    res = {'evals': 1, 'nontrivial': True}
    ed = copy.deepcopy(case['edit'])
    kind = '+'.join(ed)
    sig = {'features': [f'edit_{k}' for k in ed], 'tag': 'edit'}

    def viol(k, **kw):
        res['viol'] = dict(kind=k, sig=dict(sig, kind=k), **kw)
        res['ok'] = False
        return res
    variables = {'q': 'output(0.3)', 'zz': 0.77, 'k2': 1.9, 'p': 'variable(0.2)'}
    variables.update(case.get('extra') or {})
    vals = {}
    for i, x in enumerate(case['ids']):
        variables[x] = round(0.4 + 0.3 * i, 3)
        vals[x] = variables[x]
    base = OperatorTemplate('bo', equations=[case['eq']], variables=dict(variables))
    # expected equations: token-level edit
    exp = [case['eq']]
    # the edits refer to the inherited equations (in the order replace, remove, append); added ones are new
    if 'replace' in ed:
        for old, new in ed['replace'].items():
            exp = [term_replace(e, old, new) for e in exp]
    if 'remove' in ed:
        exp = [term_replace(e, ed['remove'][0], '') for e in exp]
    if 'append' in ed:
        exp = [f"{e} {ed['append']}" for e in exp]
    if 'add' in ed:
        exp = exp + list(ed['add'])
    try:
        new = base.update_template(name='derived', equations=ed)
    except Exception as e:
        sig['exc'] = type(e).__name__
        return viol('raises', detail=f'{type(e).__name__}: {e}'[:200])
    norm = lambda e: re.sub(r'\s+', '', e)
    if [norm(e) for e in new.equations] != [norm(e) for e in exp]:
        return viol('equations_differ', got=list(new.equations), expected=exp, edit=case['edit'])
    if base.equations != [case['eq']] or base.variables != variables:
        return viol('base_template_changed', got=list(base.equations),
                    variables_lost=sorted(set(variables) - set(base.variables)))
    # the same edit dictionary used a second time derives the same operator
    try:
        again = base.update_template(name='derived', equations=ed)
    except Exception as e:
        sig['exc'] = type(e).__name__
        return viol('raises', detail=f'second use of the edit dictionary: {type(e).__name__}: {e}'[:200])
    if list(again.equations) != list(new.equations) or again.variables != new.variables:
        return viol('edit_dictionary_consumed', first=list(new.equations), second=list(again.equations))
    # and the derived operator computes the expected right-hand side
    from ..refsem import evaluate
    env = dict(vals, zz=0.77, k2=1.9, q=0.3, p=0.2)
    env.update(case.get('extra') or {})
    try:
        circ = CircuitTemplate('c', nodes={'n': NodeTemplate('n', operators=[new])})
        C = impl.compile_field(circ, {'vectorize': False})
        got = C.call(C.y0(), t=0)
        for e in exp:
            lhs, rhs = e.split('=', 1)
            var = lhs.replace('d/dt', '').replace('*', '').strip()
            expd = evaluate(rhs, env)
            g = float(got[C.position(f'n/derived/{var}')[0]])
            if abs(g - expd) > 1e-9 * max(1.0, abs(expd)):
                return viol('derived_value', var=var, got=g, expected=float(expd), equations=list(new.equations))
    except Exception as e:
        sig['exc'] = type(e).__name__
        return viol('compile_raises', detail=f'{type(e).__name__}: {e}'[:200], equations=list(new.equations))
    res['outcome'] = kind
    res['ok'] = True
    return res


def run_chain(case):
    """YAML base: chain; every level overrides one thing, the rest is inherited"""
    from pyrates import CircuitTemplate
    from .. import impl
    res = {'evals': 1, 'nontrivial': True}
    sig = {'features': ['inheritance_chain'], 'tag': 'chain'}
    lines = ['%YAML 1.2', '---', '', 'op0:', '  base: OperatorTemplate', '  equations:', '    - "d/dt * x = -k*x + c"',
             '  variables:', '    x: output(0.5)', '    k: 1.0', '    c: 0.2', '']
    exp = {'x': 0.5, 'k': 1.0, 'c': 0.2}
    items = list(case['override'].items())
    for lvl in range(1, case['depth'] + 1):
        lines += [f'op{lvl}:', f'  base: op{lvl - 1}']
        if lvl <= len(items) or lvl == case['depth']:
            todo = items[lvl - 1:lvl] if lvl < case['depth'] else items[lvl - 1:]
            if todo:
                lines += ['  variables:']
                for k, v in todo:
                    lines += [f'    {k}: {v}']
                    exp[k] = float(re.sub(r'[a-z()]', '', str(v))) if isinstance(v, str) else v
        lines += ['']
    top = f"op{case['depth']}"
    lines += ['nd:', '  base: NodeTemplate', '  operators:', f'    - {top}', '',
              'Net:', '  base: CircuitTemplate', '  nodes:', '    n: nd', '  edges: []', '']
    with open('chain.yaml', 'w') as f:
        f.write('\n'.join(lines))
    try:
        circ = CircuitTemplate.from_yaml('chain/Net')
        C = impl.compile_field(circ, {'vectorize': False})
        pos = C.position(f'n/{top}/x')[0]
        y0 = float(C.y0()[pos])
        d = float(C.call(C.y0(), t=0)[pos])
    except Exception as e:
        sig['exc'] = type(e).__name__
        res['viol'] = dict(kind='raises', sig=dict(sig, kind='raises'), detail=f'{type(e).__name__}: {e}'[:200])
        res['ok'] = False
        return res
    expd = -exp['k'] * exp['x'] + exp['c']
    if abs(y0 - exp['x']) > 1e-12 or abs(d - expd) > 1e-12:
        res['viol'] = dict(kind='inherited_values', sig=dict(sig, kind='inherited_values'), got=[y0, d], expected=[exp['x'], expd])
        res['ok'] = False
        return res
    res['outcome'] = 'chain'
    res['ok'] = True
    return res
