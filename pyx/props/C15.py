"""C15 - YAML, Python and inherited definitions of a model are equivalent."""
import itertools
import json
import re

import numpy as np

from .. import gen, spec as sp
from . import C01

LEVEL = 'exploration'
BACKENDS = ()
CHUNK = 4

IDENTS = ['r', 'rr', 'r_in', 'm_in2', 'inn', 'r2', 'xr']


def model_cases(tier, seed):
    out = []
    seen = set()
    nodes = (['L', 'SA', 'AO', 'T1', 'T2', 'LT', 'LS', 'PT', 'LO', 'XV'] if tier == 'quick' else gen.QUICK_NODES) + ['LTO', 'TLO']

    def add(s, tag):
        key = json.dumps(s, sort_keys=True)
        if key in seen or gen.has_alg_loop(s):
            return
        seen.add(key)
        for fe in ('yaml', 'roundtrip'):
            for vec in (False, True):
                out.append({'kind': 'model', 'spec': s, 'cfg': {'vectorize': vec, 'frontend': fe}, 'tag': tag, 'seed': seed})
    for lt, edges in gen.flat_circuits(1, 1, nodes):
        add(gen.make_spec(lt, edges), 'flat1')
    for lt, edges in gen.flat_circuits(2, 1 if tier == 'quick' else 2, nodes, with_self=False):
        s = gen.make_spec(lt, edges)
        add(s, 'flat2')
        if edges and lt[0][1] in ('L', 'SA', 'LO') and lt[1][1] in ('T1', 'T2', 'LT'):
            for mode in ('split', 'dup', 'deep'):
                add(gen.wrap_hier(s, mode), 'hier_' + mode)
            e2 = [[edges[0][0], edges[0][1], 'E1', dict(edges[0][3])]] + [list(e) for e in edges[1:]]
            add(gen.make_spec(lt, e2), 'edge_tpl')
            e3 = [[edges[0][0], edges[0][1], 'E1', dict(edges[0][3], **{'e1/ge': 1.75})]]
            add(gen.make_spec(lt, e3), 'edge_tpl_attr')
    # shared operators with different per-node overrides
    for k2 in (3.5, 0.25):
        s = gen.make_spec([('a', 'L'), ('b', 'LO'), ('cc', 'T1')],
                          [['a/lin/x', 'cc/t1/u', None, {'weight': 2.0}], ['b/lin/x', 'cc/t1/u', None, {'weight': -0.5}]])
        s['node_tpls']['LO'] = [['lin', {'k': k2, 'x': 0.8}]]
        add(s, 'shared_op_overrides')
    return out


def token_replace(eq, old, new):
    """whole-identifier occurrences only"""
    return re.sub(r'(?<![A-Za-z0-9_])' + re.escape(old) + r'(?![A-Za-z0-9_])', new, eq)


def term_replace(eq, old, new):
    """occurrences of the term `old`; where the term starts/ends with an identifier character the occurrence must not
    continue into a longer identifier on that side"""
    idc = r'[A-Za-z0-9_]'
    pre = r'(?<!' + idc + ')' if re.match(idc, old[0]) else ''
    post = r'(?!' + idc + ')' if re.match(idc, old[-1]) else ''
    return re.sub(pre + re.escape(old) + post, new.replace('\\', '\\\\'), eq)


def edit_cases(tier, seed):
    out = []
    ops_chars = ['+', '-', '*', '/', '^', '(', ')', ' ']
    base_eqs = []
    # every identifier at the start / middle / end of an equation and next to each operator character
    for a, b, c in itertools.permutations(IDENTS, 3):
        base_eqs.append(f"d/dt * q = {a} + {b}*{c}")
        if tier != 'quick':
            base_eqs.append(f"d/dt * q = ({a}-{b})/{c}")
            base_eqs.append(f"d/dt * q = {a}^2*{b} - {c}")
    base_eqs = base_eqs[::(3 if tier == 'quick' else 1)]
    for i, eq in enumerate(base_eqs):
        ids = [x for x in IDENTS if re.search(r'(?<![A-Za-z0-9_])' + x + r'(?![A-Za-z0-9_])', eq.split('=')[1])]
        for tgt in ids:
            out.append({'kind': 'edit', 'eq': eq, 'ids': ids, 'edit': {'replace': {tgt: 'zz'}}, 'seed': seed})
            if (i + len(tgt)) % 3 == 0:
                out.append({'kind': 'edit', 'eq': eq, 'ids': ids, 'edit': {'replace': {tgt: f'({tgt}*k2)'}}, 'seed': seed})
        if i % 4 == 0:
            out.append({'kind': 'edit', 'eq': eq, 'ids': ids, 'edit': {'append': f'- k2*{ids[0]}'}, 'seed': seed})
            out.append({'kind': 'edit', 'eq': eq, 'ids': ids, 'edit': {'add': [f"d/dt * p = -p + {ids[-1]}"]}, 'seed': seed})
            out.append({'kind': 'edit', 'eq': eq, 'ids': ids, 'edit': {'remove': [f' + {ids[1]}*{ids[2]}'] if '+' in eq else [f'- {ids[-1]}']},
                        'seed': seed})
    # terms that start with an operator/blank and end with an identifier that is a prefix of a longer identifier
    pairs = [(a, b) for a in IDENTS for b in IDENTS if a != b and b.startswith(a)]
    for short, long_ in pairs:
        for first in (short, long_):
            second = long_ if first == short else short
            eq = f"d/dt * q = zz + k2*{first} + k2*{second}"
            ids = [short, long_]
            out.append({'kind': 'edit', 'eq': eq, 'ids': ids, 'edit': {'remove': [f' + k2*{short}']}, 'seed': seed})
            out.append({'kind': 'edit', 'eq': eq, 'ids': ids, 'edit': {'replace': {f'k2*{short}': f'k2*xr9'}}, 'seed': seed,
                        'extra': {'xr9': 0.123}})
            out.append({'kind': 'edit', 'eq': f"d/dt * q = ({short}-zz)*k2 - {long_}/zz", 'ids': ids,
                        'edit': {'replace': {f'({short}': f'(xr9'}}, 'seed': seed, 'extra': {'xr9': 0.123}})
    # inheritance chains of length 1-3 with variable overrides
    for depth in (1, 2, 3):
        for over in ({'k': 4.0}, {'x': 'output(0.9)'}, {'k': 0.5, 'c': 1.5}):
            out.append({'kind': 'chain', 'depth': depth, 'override': over, 'seed': seed})
    return out


def cases(tier, seed):
    return model_cases(tier, seed) + edit_cases(tier, seed)


def describe(tier, seed):
    return {'rule': '(a) C01-style models through an own YAML emitter -> from_yaml, (b) python classes -> to_yaml -> from_yaml '
                    '(per-node overrides, shared operators, edge templates with attributes, hierarchy), both compared per '
                    'frontend variable with the reference semantics at base point + single deviations; (c) equation edits '
                    '(replace/remove/append/add) over identifier sets that contain one another with each identifier at every '
                    'position, expected equations by token-level editing, and base: chains of length 1-3 with overrides; '
                    'non-trivial = all', 'bounds': {'nodes': 2, 'chain': 3}}


def run_case(case):
    if case['kind'] == 'model':
        r = C01.run_case({'spec': case['spec'], 'cfg': case['cfg'], 'seed': case.get('seed', 0)})
        if not r.get('ok') and 'viol' in r:
            r['viol']['sig'] = dict(r['viol'].get('sig') or {}, frontend=case['cfg']['frontend'], tag=case['tag'])
            feats = list(r['viol']['sig'].get('features') or [])
            if case['cfg']['frontend'] == 'roundtrip' and any(ov for tpl in case['spec']['node_tpls'].values() for _, ov in tpl):
                feats.append('per_node_overrides')
            r['viol']['sig']['features'] = feats
        r['nontrivial'] = True
        return r
    if case['kind'] == 'edit':
        return run_edit(case)
    return run_chain(case)


def run_edit(case):
    from pyrates import OperatorTemplate, NodeTemplate, CircuitTemplate
    from .. import impl
    import copy
    res = {'evals': 1, 'nontrivial': True}
    ed = copy.deepcopy(case['edit'])
    kind = next(iter(ed))
    sig = {'features': [f'edit_{kind}'], 'tag': 'edit'}

    def viol(k, **kw):
        res['viol'] = dict(kind=k, sig=dict(sig, kind=k), **kw)
        res['ok'] = False
        return res
    variables = {'q': 'output(0.3)', 'zz': 0.77, 'k2': 1.9, 'p': 'variable(0.2)'}
    variables.update(case.get('extra') or {})
    vals = {}
    for i, x in enumerate(case['ids']):
        variables[x] = round(0.4 + 0.3 * i, 3)
        vals[x] = variables[x]
    base = OperatorTemplate('bo', equations=[case['eq']], variables=dict(variables))
    # expected equations: token-level edit
    exp = [case['eq']]
    if kind == 'replace':
        for old, new in ed['replace'].items():
            exp = [term_replace(e, old, new) for e in exp]
    elif kind == 'remove':
        exp = [term_replace(e, ed['remove'][0], '') for e in exp]
    elif kind == 'append':
        exp = [f"{e} {ed['append']}" for e in exp]
    elif kind == 'add':
        exp = exp + ed['add']
    try:
        new = base.update_template(name='derived', equations=ed)
    except Exception as e:
        sig['exc'] = type(e).__name__
        return viol('raises', detail=f'{type(e).__name__}: {e}'[:200])
    norm = lambda e: re.sub(r'\s+', '', e)
    if [norm(e) for e in new.equations] != [norm(e) for e in exp]:
        return viol('equations_differ', got=list(new.equations), expected=exp, edit=case['edit'])
    if base.equations != [case['eq']]:
        return viol('base_template_changed', got=list(base.equations))
    # and the derived operator computes the expected right-hand side
    from ..refsem import evaluate
    env = dict(vals, zz=0.77, k2=1.9, q=0.3, p=0.2)
    env.update(case.get('extra') or {})
    try:
        circ = CircuitTemplate('c', nodes={'n': NodeTemplate('n', operators=[new])})
        C = impl.compile_field(circ, {'vectorize': False})
        got = C.call(C.y0(), t=0)
        expd = evaluate(exp[0].split('=', 1)[1], env)
        g = float(got[C.position('n/derived/q')[0]])
        if abs(g - expd) > 1e-9 * max(1.0, abs(expd)):
            return viol('derived_value', got=g, expected=float(expd), equations=list(new.equations))
    except Exception as e:
        sig['exc'] = type(e).__name__
        return viol('compile_raises', detail=f'{type(e).__name__}: {e}'[:200], equations=list(new.equations))
    res['outcome'] = kind
    res['ok'] = True
    return res


def run_chain(case):
    """YAML base: chain; every level overrides one thing, the rest is inherited"""
    from pyrates import CircuitTemplate
    from .. import impl
    res = {'evals': 1, 'nontrivial': True}
    sig = {'features': ['inheritance_chain'], 'tag': 'chain'}
    lines = ['%YAML 1.2', '---', '', 'op0:', '  base: OperatorTemplate', '  equations:', '    - "d/dt * x = -k*x + c"',
             '  variables:', '    x: output(0.5)', '    k: 1.0', '    c: 0.2', '']
    exp = {'x': 0.5, 'k': 1.0, 'c': 0.2}
    items = list(case['override'].items())
    for lvl in range(1, case['depth'] + 1):
        lines += [f'op{lvl}:', f'  base: op{lvl - 1}']
        if lvl <= len(items) or lvl == case['depth']:
            todo = items[lvl - 1:lvl] if lvl < case['depth'] else items[lvl - 1:]
            if todo:
                lines += ['  variables:']
                for k, v in todo:
                    lines += [f'    {k}: {v}']
                    exp[k] = float(re.sub(r'[a-z()]', '', str(v))) if isinstance(v, str) else v
        lines += ['']
    top = f"op{case['depth']}"
    lines += ['nd:', '  base: NodeTemplate', '  operators:', f'    - {top}', '',
              'Net:', '  base: CircuitTemplate', '  nodes:', '    n: nd', '  edges: []', '']
    with open('chain.yaml', 'w') as f:
        f.write('\n'.join(lines))
    try:
        circ = CircuitTemplate.from_yaml('chain/Net')
        C = impl.compile_field(circ, {'vectorize': False})
        pos = C.position(f'n/{top}/x')[0]
        y0 = float(C.y0()[pos])
        d = float(C.call(C.y0(), t=0)[pos])
    except Exception as e:
        sig['exc'] = type(e).__name__
        res['viol'] = dict(kind='raises', sig=dict(sig, kind='raises'), detail=f'{type(e).__name__}: {e}'[:200])
        res['ok'] = False
        return res
    expd = -exp['k'] * exp['x'] + exp['c']
    if abs(y0 - exp['x']) > 1e-12 or abs(d - expd) > 1e-12:
        res['viol'] = dict(kind='inherited_values', sig=dict(sig, kind='inherited_values'), got=[y0, d], expected=[exp['x'], expd])
        res['ok'] = False
        return res
    res['outcome'] = 'chain'
    res['ok'] = True
    return res
