"""C08 - extrinsic inputs are applied at the right time to the right unit."""
import hashlib

import numpy as np

from .. import spec as sp

LEVEL = 'exploration'
BACKENDS = ('torch', 'jax', 'fortran')
X64 = True
CHUNK = 2
CASE_BUDGET = 300

OPS = {'io': {'eqs': ["d/dt * x = u"], 'vars': {'x': 'output(0.0)', 'u': 'input(0.0)'}},
       'io2': {'eqs': ["d/dt * x = u + u2"], 'vars': {'x': 'output(0.0)', 'u': 'input(0.0)', 'u2': 'input(0.0)'}},
       'ro': {'eqs': ["d/dt * z = c"], 'vars': {'z': 'output(0.25)', 'c': 0.5}}}


def _nodes(labels, op):
    tpls = {}
    nodes = {}
    for i, l in enumerate(labels):
        tpls[f'N{l}'] = [[op, {'x': round(0.1 * (i + 1), 3)}]]
        nodes[l] = f'N{l}'
    return tpls, nodes


def structures():
    out = {}
    for name, labels, op in (('S1', ['a'], 'io'), ('S2', ['b', 'a'], 'io'), ('S3', ['cc', 'a', 'b'], 'io'),
                             ('S2m', ['a', 'b'], 'io2')):
        tpls, nodes = _nodes(labels, op)
        out[name] = {'ops': OPS, 'node_tpls': tpls, 'edge_tpls': {}, 'share': True,
                     'circuit': {'name': 'net', 'nodes': nodes, 'edges': []}, 'op': op}
    l12 = [f'n{i}' for i in (3, 0, 1, 2, 4, 5, 6, 7, 8, 9, 10, 11)]
    tpls, nodes = _nodes(l12, 'io')
    out['S12'] = {'ops': OPS, 'node_tpls': tpls, 'edge_tpls': {}, 'share': True, 'op': 'io',
                  'circuit': {'name': 'net', 'nodes': nodes, 'edges': []}}
    tpls, nodes = _nodes(['a', 'b'], 'io')
    tpls['R'] = [['ro', {}]]
    nodes = dict(nodes, r='R')
    out['S2e'] = {'ops': OPS, 'node_tpls': tpls, 'edge_tpls': {}, 'share': True, 'op': 'io',
                  'circuit': {'name': 'net', 'nodes': nodes, 'edges': [['r/ro/z', 'a/io/u', None, {'weight': 2.0}]]}}
    t1, n1 = _nodes(['b', 'a'], 'io')
    t2 = {'Nc': [['io', {'x': 0.7}]], 'Nd': [['io', {'x': 0.9}]]}
    # sub-circuits and nodes are declared in an order that differs from the sorted order of their labels
    out['H1'] = {'ops': OPS, 'node_tpls': dict(t1, **t2), 'edge_tpls': {}, 'share': True, 'op': 'io',
                 'circuit': {'name': 'top', 'circuits': {'c2': {'name': 's2', 'nodes': {'a': 'Nc', 'b': 'Nd'}, 'edges': []},
                                                        'c1': {'name': 's1', 'nodes': n1, 'edges': []}},
                             'edges': []}}
    out['H2'] = {'ops': OPS, 'node_tpls': t1, 'edge_tpls': {}, 'share': True, 'op': 'io',
                 'circuit': {'name': 'top2', 'circuits': {'d1': {'name': 'mid', 'circuits': {
                     'c1': {'name': 's1', 'nodes': n1, 'edges': []}}, 'edges': []}}, 'edges': []}}
    out['H3'] = {'ops': OPS, 'node_tpls': dict(t1, **t2), 'edge_tpls': {}, 'share': True, 'op': 'io',
                 'circuit': {'name': 'top3', 'circuits': {'e1': {'name': 'outer', 'circuits': {
                     'd1': {'name': 'mid', 'circuits': {'c1': {'name': 's1', 'nodes': n1, 'edges': []},
                                                        'c2': {'name': 's2', 'nodes': {'a': 'Nc', 'b': 'Nd'}, 'edges': []}},
                            'edges': []}}, 'edges': []}}, 'edges': []}}
    return out


SELECTIONS = {
    'S1': [[('a/io/u', 'N')], [('a/io/u', 'N1')], [('all/io/u', 'N')], [('a/io/u', 'N'), ('all/io/u', 'N1')]],
    'S2': [[('a/io/u', 'N')], [('b/io/u', 'N1')], [('all/io/u', 'N')], [('all/io/u', 'Nn')],
           [('a/io/u', 'N'), ('all/io/u', 'Nn')], [('a/io/u', 'N'), ('b/io/u', 'N')]],
    'S3': [[('all/io/u', 'Nn')], [('all/io/u', 'N')], [('cc/io/u', 'N'), ('all/io/u', 'Nn')], [('b/io/u', 'N1')]],
    'S2m': [[('a/io2/u', 'N'), ('a/io2/u2', 'N')], [('all/io2/u', 'Nn'), ('b/io2/u2', 'N1')], [('all/io2/u2', 'N')]],
    'S2e': [[('a/io/u', 'N')], [('all/io/u', 'Nn')], [('b/io/u', 'N')]],
    'H1': [[('c1/a/io/u', 'N')], [('c1/all/io/u', 'Nn')], [('all/all/io/u', 'N')], [('all/all/io/u', 'Nn')],
           [('all/b/io/u', 'Nn')], [('c2/b/io/u', 'N1'), ('all/all/io/u', 'Nn')]],
    'S12': [[('all/io/u', 'N')], [('all/io/u', 'Nn')], [('n5/io/u', 'N1'), ('all/io/u', 'N')]],
    'H2': [[('d1/c1/a/io/u', 'N')], [('all/all/all/io/u', 'Nn')], [('d1/c1/all/io/u', 'N')],
           [('d1/c1/a/io/u', 'N'), ('d1/c1/b/io/u', 'N1')]],
    'H3': [[('e1/d1/c2/b/io/u', 'N')], [('all/all/all/all/io/u', 'Nn')], [('e1/d1/c1/a/io/u', 'N'), ('e1/all/all/b/io/u', 'Nn')]],
}


def resolve(target, node_paths):
    """own wildcard resolution over the flattened node paths (declaration order)"""
    *node, op, var = target.split('/')
    out = []
    for p in node_paths:
        parts = p.split('/')
        if len(parts) == len(node) and all(a == 'all' or a == b for a, b in zip(node, parts)):
            out.append(p)
    return out, op, var


def make_array(kind, j, N, n):
    k = np.arange(N, dtype=float)
    base = 0.01 * k ** 2 + 0.1 * k * (j + 1) + 0.5 * j - 0.3
    if kind == 'N':
        return base
    if kind == 'N1':
        return base.reshape(N, 1)
    return np.stack([base + 1.0 * (c + 1) + 0.05 * c * k for c in range(n)], axis=1)


def cases(tier, seed):
    out = []
    Ns = (8,) if tier == 'quick' else (5, 8, 13)
    backends = [('default', True), ('default', False)]
    if tier != 'quick':
        backends += [('torch', True), ('jax', True), ('fortran', False)]
    for sname, sels in SELECTIONS.items():
        for si, sel in enumerate(sels):
            for N in Ns:
                for backend, vec in backends:
                    if not vec and any(k == 'Nn' for _, k in sel):
                        continue
                    for solver in ('euler', 'heun', 'scipy'):
                        if backend == 'torch' and solver == 'heun':
                            continue
                        out.append({'struct': sname, 'sel': si, 'N': N, 'backend': backend, 'vectorize': vec,
                                    'solver': solver, 'seed': seed})
                        # recording every 2nd / 3rd step only: the sample used in step k is still sample k
                        if solver != 'scipy' and (tier != 'quick' or si == 0):
                            for sub in (2, 3):
                                out.append({'struct': sname, 'sel': si, 'N': N, 'backend': backend, 'vectorize': vec,
                                            'solver': solver, 'seed': seed, 'sub': sub})
    if tier == 'quick':
        # a thin slice of the other backends in the quick tier
        for backend, vec in (('torch', True), ('jax', True), ('fortran', False)):
            for sname, si in (('S1', 0), ('S2', 2), ('S2', 3), ('H1', 3), ('S2m', 0), ('S2', 5)):
                if not vec and any(k == 'Nn' for _, k in SELECTIONS[sname][si]):
                    continue
                for solver in ('euler', 'scipy'):
                    out.append({'struct': sname, 'sel': si, 'N': 8, 'backend': backend, 'vectorize': vec,
                                'solver': solver, 'seed': seed})
            for sname, si in (('S1', 0), ('S2', 5)):
                for solver in ('euler',) + (('heun',) if backend != 'torch' else ()):
                    for sub in (2, 3):
                        out.append({'struct': sname, 'sel': si, 'N': 8, 'backend': backend, 'vectorize': vec,
                                    'solver': solver, 'seed': seed, 'sub': sub})
    return out


def describe(tier, seed):
    return {'rule': 'pure integrators x\' = u (+u2, + edge) in 1-4 nodes, depth 0-3 x every listed target selection (single, '
                    'wildcard, hierarchical, two inputs on one variable) x shapes (N,), (N,1), (N,n) with strictly distinct '
                    'samples x solver x backend x vectorize x recording every 1st/2nd/3rd step; oracle: dict-state reference with sample k during step k '
                    '(fixed step), exact integral / np.interp of the samples on linspace(0,T,N) (adaptive, incl. f(t,y) '
                    'at on-grid, mid-grid and out-of-range t); non-trivial = every case (inputs are never constant)',
            'bounds': {'nodes': 4, 'depth': 2, 'N': 8 if tier == 'quick' else 13}}


def run_case(case):
    from .. import build, impl, pool
    from ..refsem import solvers
    st = structures()[case['struct']]
    sel = SELECTIONS[case['struct']][case['sel']]
    N, dt = case['N'], 0.125
    T = N * dt
    spec = {k: v for k, v in st.items() if k != 'op'}
    nodes, edges = sp.flatten(spec)
    io_nodes = [p for p in nodes if nodes[p][0][0] in ('io', 'io2')]
    res = {'evals': 0, 'nontrivial': True}
    sig = {'features': ['input_depth_ge2'] if case['struct'] in ('H2', 'H3') else [], 'backend': case['backend'],
           'solver': case['solver']}

    def viol(kind, **kw):
        res['viol'] = dict(kind=kind, sig=dict(sig, kind=kind), **kw)
        res['ok'] = False
        return res
    inputs, ext_fixed, ext_adapt = {}, {}, {}
    grid_t = np.linspace(0, T, N)
    for j, (target, kind) in enumerate(sel):
        tn, op, var = resolve(target, io_nodes)
        arr = make_array(kind, j, N, len(tn))
        inputs[target] = arr
        for i, n in enumerate(tn):
            col = arr[:, i] if (arr.ndim == 2 and arr.shape[1] == len(tn) and arr.shape[1] > 1) else arr.reshape(N, -1)[:, 0]
            ext_fixed.setdefault(f'{n}/{op}/{var}', []).append(lambda k, c=col: c[int(k)])
            ext_adapt.setdefault(f'{n}/{op}/{var}', []).append(lambda t, c=col: np.interp(t, grid_t, c))
    adaptive = case['solver'] == 'scipy'
    m = sp.refmodel(spec, inputs=ext_adapt if adaptive else ext_fixed)
    outs = {f'o{i}': f'{p}/{nodes[p][0][0]}/x' for i, p in enumerate(io_nodes)}
    sub = case.get('sub', 1)
    kw = dict(simulation_time=T, step_size=dt, sampling_step_size=sub * dt, outputs=dict(outs), solver=case['solver'],
              backend=case['backend'], vectorize=case['vectorize'], verbose=False, float_precision='float64',
              clear=True, inputs={k: v.copy() for k, v in inputs.items()})
    if adaptive:
        kw.update(rtol=1e-11, atol=1e-13)   # the inputs have kinks: RK45's local error estimate is blind to some of them
    if case['backend'] == 'fortran':
        kw['file_name'] = f"c08_{abs(hash(str(sorted(case.items())))) % 10**9}"
    try:
        circ = build.build_py(spec)
        df = circ.run(**kw)
    except Exception as e:
        sig['exc'] = type(e).__name__
        return viol('raises', detail=f'{type(e).__name__}: {e}'[:300])
    # expected trajectories
    if not adaptive:
        rows = (solvers.euler if case['solver'] == 'euler' else solvers.heun)(m, dt, N - 1)
        exp = {k: np.array([r[p] for r in rows])[::sub][:int(round(T / (sub * dt)))] for k, p in outs.items()}
        tol = 1e-9
    else:
        # exact integral of the piecewise-linear interpolants (and of the ramp edge) via the dict-state field on a
        # fine grid that contains every knot: trapezoid is exact for piecewise-linear integrands
        ts = np.unique(np.concatenate([grid_t, np.arange(N) * dt]))
        exp = {}
        S0 = m.y0()
        for k, p in outs.items():
            node = p.rsplit('/', 2)[0]
            f = np.array([m.field(dict(S0, **{q: (S0[q] + 0.5 * t if q.endswith('/ro/z') else S0[q]) for q in S0}),
                                  t=t)[0][p] for t in ts])
            integ = np.concatenate([[0], np.cumsum(0.5 * (f[1:] + f[:-1]) * np.diff(ts))])
            exp[k] = S0[p] + np.interp(np.arange(N) * dt, ts, integ)
        tol = 2e-5
    for k, p in outs.items():
        got = np.asarray(df[k], dtype=float)
        if got.shape != exp[k].shape or np.max(np.abs(got - exp[k])) > tol * max(1.0, np.max(np.abs(exp[k]))):
            return viol('trajectory', var=p, got=got.tolist(), expected=exp[k].tolist())
    res['evals'] += N
    # the compiled function at chosen t (get_run_func(inputs=...))
    pool.fresh_state()
    try:
        circ2 = build.build_py(spec)
        cfg = {'vectorize': case['vectorize'], 'dt': dt, 'backend': case['backend'], 'solver': case['solver']}
        if case['backend'] == 'fortran':
            cfg['file_name'] = kw['file_name'] + 'f'
        C = impl.compile_field(circ2, cfg, inputs={k: v.copy() for k, v in inputs.items()})
    except Exception as e:
        sig['exc'] = type(e).__name__
        return viol('raises', stage='get_run_func', detail=f'{type(e).__name__}: {e}'[:300])
    if case['vectorize']:
        C.set_merge_hint([[f'{p}/{nodes[p][0][0]}/x' for p in io_nodes]])
    states = m.state_vars()
    S = {p: 0.3 + 0.1 * i for i, p in enumerate(states)}
    if adaptive:
        Tg = N * dt   # get_run_func places the samples on linspace(0, N*dt, N)
        g2 = np.linspace(0, Tg, N)
        m2 = sp.refmodel(spec, inputs={p: [(lambda t, c=f(0) * 0 + np.array([f(x) for x in grid_t]): np.interp(t, g2, c))
                                           for f in fs] for p, fs in ext_adapt.items()})
        probes = [0.0, g2[1], g2[3], 0.5 * (g2[1] + g2[2]), g2[2] + 0.25 * (g2[3] - g2[2]), Tg, Tg + 1.0, -0.5]
    else:
        m2 = m
        probes = [0, 1, N // 2, N - 1]
    for t in probes:
        try:
            got = C.field(S, t=t, state_paths=[p for p in states])
        except Exception as e:
            sig['exc'] = type(e).__name__
            return viol('call_raises', t=t, detail=f'{type(e).__name__}: {e}'[:300])
        expd, _ = m2.field(S, t=t)
        res['evals'] += 1
        for p in states:
            if abs(float(got[p]) - expd[p]) > 1e-9 * max(1.0, abs(expd[p])):
                sig['stage'] = 'func_at_t'
                return viol('func_value', var=p, t=float(t), got=float(got[p]), expected=float(expd[p]))
    res['outcome'] = hashlib.sha256(np.asarray(df.values, dtype=float).round(9).tobytes()).hexdigest()[:10]
    res['ok'] = True
    return res
