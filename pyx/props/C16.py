"""C16 - Population/Connectivity equals the explicit node-and-edge network."""
import hashlib
import itertools
import json

import numpy as np

from ..refsem import Model, solvers

LEVEL = 'exploration'
BACKENDS = ()
CHUNK = 4
DT = 0.125

OPS = {'po': {'eqs': ["d/dt * x = -k*x + u"], 'vars': {'x': 'output(0.5)', 'k': 1.0, 'u': 'input(0.0)'}},
       'qo': {'eqs': ["d/dt * z = -g*z + w"], 'vars': {'z': 'output(0.3)', 'g': 2.0, 'w': 'input(0.0)'}},
       'co': {'eqs': ["cout = gc*x_pre*(1 - 0.5*x_post)"],
              'vars': {'cout': 'output(0.0)', 'x_pre': 'input(0.0)', 'x_post': 'input(0.0)', 'gc': 1.0}},
       'rq': {'eqs': ["d/dt * q = -q + x"], 'vars': {'q': 'output(0.05)', 'x': 'input(0.0)'}},
       'lo': {'eqs': ["d/dt * s = (r_pre - s)/tau", "sout = s"],
              'vars': {'s': 'variable(0.0)', 'sout': 'output(0.0)', 'r_pre': 'input(0.0)', 'tau': 0.5}}}
POPOP = {'e': ('po', 'x', 'u', 'k'), 'i': ('qo', 'z', 'w', 'g'), 'f': ('po', 'x', 'u', 'k'), 'g': ('po', 'x', 'u', 'k')}
# population g: every unit has a second operator that reads x of its own unit (it must see the present value of x also
# when a delayed connection leaves g/po/x)
READER = {'g': 'rq'}


def het(n, base, step):
    return [round(base + step * j, 4) for j in range(n)]


SCALAR_POPS = ()    # populations whose rate parameter is given as ONE scalar for all units (set per case)


def pop_params(pop, n):
    op, sv, iv, kv = POPOP[pop]
    off = {'e': 0.0, 'i': 0.37, 'f': 0.71, 'g': 0.13}[pop]
    k = 1.75 + off if pop in SCALAR_POPS else het(n, 1.0 + off, 0.5)
    return {f'{op}/{kv}': k, f'{op}/{sv}': het(n, 0.2 + off, 0.15)}


def at(v, j):
    return v[j] if isinstance(v, (list, tuple)) else v


def cases(tier, seed):
    out = []
    A = [None, 2.0, -0.5]

    def add(pops, conns, tag):
        out.append({'pops': pops, 'conns': conns, 'tag': tag, 'seed': seed})

    def mats(nt, ns, full):
        pos = [(i, j) for i in range(nt) for j in range(ns)]
        if full:
            for combo in itertools.product(A, repeat=len(pos)):
                W = np.zeros((nt, ns))
                for (i, j), w in zip(pos, combo):
                    if w is not None:
                        W[i, j] = w
                yield W.tolist()
        else:
            vals = [2.0, -0.5, 1.0, 3.0]
            for k in range(0, 4):
                for sub in itertools.combinations(range(len(pos)), k):
                    W = np.zeros((nt, ns))
                    for q, p in enumerate(sub):
                        W[pos[p]] = vals[q % len(vals)]
                    yield W.tolist()
    Ns = (1, 2, 3) if tier == 'quick' else (1, 2, 3, 4)
    # one population, recurrent
    for n in Ns:
        for W in mats(n, n, full=(n <= 2)):
            if n == 4 and np.count_nonzero(W) > 2:
                continue
            add({'e': n}, [{'src': 'e', 'tgt': 'e', 'W': W}], f'rec{n}')
        for w in (1.0, -0.75, -1.0, 2.0):     # -1.0: mirror image of the unit-gain shortcut (seed C16-m9)
            add({'e': n}, [{'src': 'e', 'tgt': 'e', 'W': w}], f'scalar{n}')
    # two populations, non-square matrices in both directions
    for ne, ni in ((2, 1), (1, 2), (2, 3), (3, 2)) + (((4, 3),) if tier != 'quick' else ()):
        for k, W in enumerate(mats(ni, ne, full=(ne * ni <= 2))):
            if ne * ni > 4 and k % (3 if tier == 'quick' else 1):
                continue
            Wb = (np.arange(ne * ni).reshape(ne, ni) * 0.25 - 0.5).tolist()
            add({'e': ne, 'i': ni}, [{'src': 'e', 'tgt': 'i', 'W': W}, {'src': 'i', 'tgt': 'e', 'W': Wb}], f'two{ne}x{ni}')
        add({'e': ne, 'i': ni}, [{'src': 'e', 'tgt': 'i', 'W': 1.5}, {'src': 'i', 'tgt': 'e', 'W': -0.5}], f'two_scalar{ne}x{ni}')
        add({'e': ne, 'i': ni}, [{'src': 'e', 'tgt': 'i', 'W': -1.0}, {'src': 'i', 'tgt': 'e', 'W': 1.0}], f'two_scalar_unit{ne}x{ni}')
    # two connections onto the same target variable (fan-in from two populations)
    for W in list(mats(2, 2, full=False))[:12]:
        add({'e': 2, 'i': 3}, [{'src': 'e', 'tgt': 'e', 'W': W},
                               {'src': 'i', 'tgt': 'e', 'W': (np.arange(6).reshape(2, 3) * 0.3 - 0.4).tolist()}], 'fanin')
    # algebraic coupling edges (same population and cross population)
    for n in (2, 3):
        for W in list(mats(n, n, full=False))[1:(10 if tier == 'quick' else 60)]:
            add({'e': n}, [{'src': 'e', 'tgt': 'e', 'W': W, 'edge': 'alg'}], f'alg{n}')
    for W in list(mats(3, 2, full=False))[1:8]:
        add({'e': 2, 'i': 3}, [{'src': 'e', 'tgt': 'i', 'W': W, 'edge': 'alg'}], 'alg_cross')
        add({'e': 2, 'f': 3}, [{'src': 'e', 'tgt': 'f', 'W': W, 'edge': 'alg'}], 'alg_cross_same_names')
    # dynamic coupling edge
    for n in (2,) if tier == 'quick' else (2, 3):
        for W in list(mats(n, n, full=False))[1:6]:
            add({'e': n}, [{'src': 'e', 'tgt': 'e', 'W': W, 'edge': 'dyn'}], f'dyn{n}')
    # delays with and without spread
    for W in list(mats(2, 2, full=False))[1:(6 if tier == 'quick' else 30)]:
        for d, s in ((2 * DT, None), (3 * DT, None), (2.6 * DT, None), (3.5 * DT, None), (1.4 * DT, None), (1.0, 0.5), (1.0, 0.7)):
            add({'e': 2}, [{'src': 'e', 'tgt': 'e', 'W': W, 'delay': d, 'spread': s}], 'delay' if s is None else 'gamma')
    # two connections that leave the same source variable with different delays (each needs its own buffer)
    for d1, d2 in ((2 * DT, 3 * DT), (3 * DT, None), (2 * DT, 2 * DT), (2.6 * DT, 3.5 * DT)):
        for W in list(mats(2, 2, full=False))[3:7]:
            c2 = {'src': 'e', 'tgt': 'i', 'W': [[1.5, -0.5], [0.25, 2.0]]}
            if d2:
                c2['delay'] = d2
            add({'e': 2, 'i': 2}, [{'src': 'e', 'tgt': 'e', 'W': W, 'delay': d1}, c2], 'two_delays_one_source')
    # two connections whose coupling edges have the same equations but their own constants / initial values
    for W in list(mats(2, 2, full=False))[3:(7 if tier == 'quick' else 20)]:
        Wb = [[1.5, -0.5], [0.25, 2.0]]
        for kind, v1, v2 in (('alg', {}, {'gc': 2.5}), ('alg', {'gc': 0.5}, {'gc': 2.5}),
                             ('dyn', {}, {'tau': 0.2, 's': 0.3}), ('dyn', {'tau': 0.25, 's': -0.1}, {'tau': 1.0, 's': 0.2})):
            add({'e': 2, 'i': 2}, [{'src': 'e', 'tgt': 'e', 'W': W, 'edge': kind, 'edge_vals': v1},
                                   {'src': 'i', 'tgt': 'e', 'W': Wb, 'edge': kind, 'edge_vals': v2}], f'two_{kind}_edges')
            add({'e': 2, 'i': 2}, [{'src': 'i', 'tgt': 'e', 'W': Wb, 'edge': kind, 'edge_vals': v2},
                                   {'src': 'e', 'tgt': 'i', 'W': W, 'edge': kind, 'edge_vals': v1}], f'two_{kind}_edges')
    # two connections between the same pair of variables (their contributions add up), with and without delays
    for d1, d2 in ((None, None), (3 * DT, None), (3 * DT, 5 * DT), (3 * DT, 3 * DT), (None, 2 * DT)):
        for W2 in ([[0.5, 0.0], [0.0, -1.0]], [[1.0, 2.0], [0.0, 0.0]]):
            c1 = {'src': 'e', 'tgt': 'i', 'W': [[0.0, 2.0], [1.0, 0.0]]}
            c2 = {'src': 'e', 'tgt': 'i', 'W': W2}
            if d1:
                c1['delay'] = d1
            if d2:
                c2['delay'] = d2
            add({'e': 2, 'i': 2}, [c1, c2], 'parallel_connections')
    # one ndarray object used by several connections, two of which are parallel (their sum must not be written into it)
    for W2 in ([[0.5, 0.0], [0.0, -1.0]], [[1.0, 2.0], [0.0, 0.0]]):
        W1 = [[0.0, 2.0], [1.0, 0.0]]
        for order in ((0, 1, 2), (2, 0, 1), (0, 2, 1)):
            cs = [{'src': 'e', 'tgt': 'i', 'W': W1}, {'src': 'e', 'tgt': 'i', 'W': W2}, {'src': 'e', 'tgt': 'e', 'W': W1}]
            add({'e': 2, 'i': 2}, [cs[k] for k in order], 'shared_weight_array')
            out[-1]['share_arrays'] = True
    # units with two operators: the second reads x of its own unit while (delayed) connections leave x
    for d, sp_ in ((None, None), (3 * DT, None), (2.6 * DT, None), (1.0, 0.5)):
        for W in ([[0.0, 2.0], [-0.5, 0.0]], [[1.0, 0.0], [3.0, 2.0]]):
            c1 = {'src': 'g', 'tgt': 'i', 'W': W}
            if d:
                c1['delay'] = d
            if sp_:
                c1['spread'] = sp_
            add({'g': 2, 'i': 2}, [c1, {'src': 'i', 'tgt': 'g', 'W': [[1.5, -0.5], [0.25, 2.0]]}], 'reader_in_population')
    # a scalar entry in PopulationTemplate.params next to per-unit lists (broadcast to all units)
    for W in list(mats(2, 3, full=False))[2:8]:
        for sc in (['e'], ['i'], ['e', 'i']):
            add({'e': 3, 'i': 2}, [{'src': 'e', 'tgt': 'i', 'W': W}, {'src': 'i', 'tgt': 'e', 'W': [[1.5, -0.5], [0.25, 2.0], [0.0, 1.0]]}],
                'scalar_param')
            out[-1]['scalar_pops'] = sc
    for s1, s2 in ((0.5, 0.7), (0.5, None)):
        c2 = {'src': 'e', 'tgt': 'i', 'W': [[1.5, -0.5], [0.25, 2.0]], 'delay': 1.0}
        if s2:
            c2['spread'] = s2
        add({'e': 2, 'i': 2}, [{'src': 'e', 'tgt': 'e', 'W': [[0.0, 2.0], [-0.5, 0.0]], 'delay': 1.0, 'spread': s1}, c2],
            'two_kernels_one_source')
    return out


def describe(tier, seed):
    return {'rule': 'PopulationTemplate(n) x Connectivity circuits: n in 1..3 (4), one or two populations, every weight matrix '
                    'over {0, a, -b} for <=2x2 and all matrices with <=3 non-zeros otherwise (non-square, signed, sparse), '
                    'scalar weights (1, -1, 2, -0.75, 1.5, -0.5), heterogeneous per-unit parameters and initial states (all distinct), algebraic and '
                    'dynamic coupling edges (with and without edge constants; also two connections whose edges share the equations but not the values), delays '
                    'with/without spread (whole and fractional multiples of the step), two parallel connections between one pair of variables, scalar entries in params; oracle: unit-by-unit reference expansion '
                    'target_i += sum_j W[i,j]*source_j (vector field at probe points + euler trajectories) and, for plain '
                    'weights, the circuit of n separately declared nodes built with add_edges_from_matrix',
            'bounds': {'n': 3 if tier == 'quick' else 4}}


def reference(case):
    nodes, edges = {}, []
    for pop, n in case['pops'].items():
        op, sv, iv, kv = POPOP[pop]
        pp = pop_params(pop, n)
        for j in range(n):
            nodes[f'{pop}_{j}'] = [(op, {kv: at(pp[f'{op}/{kv}'], j), sv: pp[f'{op}/{sv}'][j]})] + \
                ([(READER[pop], {})] if pop in READER else [])
    etpls = {}
    for ci, c in enumerate(case['conns']):
        s, t = c['src'], c['tgt']
        sop, ssv = POPOP[s][0], POPOP[s][1]
        top, tsv, tiv = POPOP[t][0], POPOP[t][1], POPOP[t][2]
        ns, nt = case['pops'][s], case['pops'][t]
        W = np.asarray(c['W'], dtype=float)
        for i in range(nt):
            for j in range(ns):
                w = float(W) if W.ndim == 0 else float(W[i, j])
                if W.ndim == 2 and w == 0.0 and not c.get('edge'):
                    continue
                a = {'weight': w}
                tpl = None
                if c.get('edge') == 'alg':
                    tpl = f'EA{ci}'
                    etpls[tpl] = [['co', dict(c.get('edge_vals') or {})]]
                    a.update({f'{tpl}/co/x_pre': 'source', f'{tpl}/co/x_post': f'{t}_{i}/{top}/{tsv}'})
                elif c.get('edge') == 'dyn':
                    tpl = f'ED{ci}'
                    etpls[tpl] = [['lo', dict(c.get('edge_vals') or {})]]
                if c.get('delay') and not c.get('spread'):
                    a['delay'] = c['delay']
                edges.append((f'{s}_{j}/{sop}/{ssv}', f'{t}_{i}/{top}/{tiv}', tpl, a))
    return Model(OPS, nodes, edges, edge_tpls=etpls)


def build_pop(case):
    from pyrates import OperatorTemplate, NodeTemplate, EdgeTemplate, CircuitTemplate
    from pyrates.frontend.template.population import PopulationTemplate, Connectivity
    import copy
    ops = {k: OperatorTemplate(k, equations=list(v['eqs']), variables=copy.deepcopy(v['vars'])) for k, v in OPS.items()}
    pops = {}
    for pop, n in case['pops'].items():
        op = POPOP[pop][0]
        pops[pop] = PopulationTemplate(name=pop, node=NodeTemplate(f'node_{pop}', operators=[ops[op]] + ([ops[READER[pop]]] if pop in READER else [])), n=n,
                                       params={k: (list(v) if isinstance(v, list) else v) for k, v in pop_params(pop, n).items()})
    conns = []
    shared = {}    # with case['share_arrays']: connections with equal weights are given the SAME ndarray object
    for c in case['conns']:
        s, t = c['src'], c['tgt']
        kw = {}
        ev = c.get('edge_vals')
        if c.get('edge') == 'alg':
            kw = {'edge': EdgeTemplate('EA', operators={ops['co']: dict(ev)} if ev else [ops['co']]),
                  'edge_var_map': {'x_pre': 'source', 'x_post': f'{t}/{POPOP[t][0]}/{POPOP[t][1]}'}}
        elif c.get('edge') == 'dyn':
            kw = {'edge': EdgeTemplate('ED', operators={ops['lo']: dict(ev)} if ev else [ops['lo']]),
                  'edge_var_map': {'r_pre': 'source'}}
        if c.get('delay'):
            kw['delays'] = c['delay']
        if c.get('spread'):
            kw['spread'] = c['spread']
        W = np.asarray(c['W'], dtype=float)
        if case.get('share_arrays'):
            W = shared.setdefault(json.dumps(c['W']), W)
        conns.append(Connectivity(source=f'{s}/{POPOP[s][0]}/{POPOP[s][1]}', target=f'{t}/{POPOP[t][0]}/{POPOP[t][2]}',
                                  weights=W, **kw))
    return CircuitTemplate('popnet', populations=pops, connections=conns)


def build_explicit(case):
    """the circuit with n separately declared nodes and add_edges_from_matrix, as the property states"""
    from pyrates import OperatorTemplate, NodeTemplate, CircuitTemplate
    import copy
    ops = {k: OperatorTemplate(k, equations=list(v['eqs']), variables=copy.deepcopy(v['vars'])) for k, v in OPS.items()}
    nodes = {}
    for pop, n in case['pops'].items():
        op, sv, iv, kv = POPOP[pop]
        pp = pop_params(pop, n)
        for j in range(n):
            opd = {ops[op]: {kv: at(pp[f'{op}/{kv}'], j), sv: pp[f'{op}/{sv}'][j]}}
            if pop in READER:
                opd[ops[READER[pop]]] = {}
            nodes[f'{pop}_{j}'] = NodeTemplate(f'{pop}_{j}', operators=opd)
    c = CircuitTemplate('explicit', nodes=nodes)
    for cn in case['conns']:
        s, t = cn['src'], cn['tgt']
        ns, nt = case['pops'][s], case['pops'][t]
        W = np.asarray(cn['W'], dtype=float)
        if W.ndim == 0:
            W = np.full((nt, ns), float(W))
        c.add_edges_from_matrix(f'{POPOP[s][0]}/{POPOP[s][1]}', f'{POPOP[t][0]}/{POPOP[t][2]}',
                                source_nodes=[f'{s}_{j}' for j in range(ns)], target_nodes=[f'{t}_{i}' for i in range(nt)],
                                weight=W)
    return c


def run_case(case):
    from .. import impl, pool, values
    global SCALAR_POPS
    SCALAR_POPS = tuple(case.get('scalar_pops') or ())
    res = {'evals': 0}
    m = reference(case)
    feats = []
    for c in case['conns']:
        if c.get('edge') and c['src'] != c['tgt'] and POPOP[c['src']][1] == POPOP[c['tgt']][1]:
            feats.append('coupling_edge_cross_population_same_var_names')
        if c.get('edge'):
            feats.append(f"edge_{c['edge']}")
    sig = {'features': sorted(set(feats)), 'tag': case['tag']}
    res['nontrivial'] = any(np.any(np.asarray(c['W']) != 0) for c in case['conns'])

    def viol(kind, **kw):
        res['viol'] = dict(kind=kind, sig=dict(sig, kind=kind), **kw)
        res['ok'] = False
        return res
    timed = any(c.get('delay') for c in case['conns']) or any(c.get('edge') == 'dyn' for c in case['conns'])
    states = [p for p in m.state_vars() if not p.startswith('__e')]

    def unit(p):
        node, op, var = p.split('/')
        pop, j = node.rsplit('_', 1)
        return f'{pop}/{op}/{var}', int(j)
    if not timed:
        try:
            circ = build_pop(case)
            C = impl.compile_field(circ, {'vectorize': True})
        except Exception as e:
            sig['exc'] = type(e).__name__
            return viol('compile_raises', detail=f'{type(e).__name__}: {e}'[:300])
        pos = {}
        for p in states:
            key, j = unit(p)
            rng = C.svm.get(key)
            if rng is None:
                return viol('state_var_missing_in_layout', var=key, svm=str(C.svm))
            pos[p] = (rng[0] + j) if isinstance(rng, (tuple, list)) else int(rng)
        if len(set(pos.values())) != len(pos) or sorted(pos.values()) != list(range(C.n)):
            return viol('layout', pos=pos, n=C.n)
        y0 = C.y0()
        for p in states:
            if abs(y0[pos[p]] - m.init[p]) > 1e-12:
                return viol('initial_value', var=p, got=float(y0[pos[p]]), expected=m.init[p])
        # parameters: per-unit vectors named after the population variable
        consts = [p for p in m.constants() if not p.startswith('__e')]
        for p in consts:
            key, j = unit(p)
            if key in C.names:
                v = np.asarray(impl.to_np(C.args[C.names.index(key)]), dtype=float).reshape(-1)
                val = v[j] if v.size > 1 else v[0]
                if abs(val - m.init[p]) > 1e-12:
                    return viol('argument_value', var=p, got=float(val), expected=m.init[p])
        for S, P in values.probe_points(states, [], {}, seed=case.get('seed', 0)):
            y = y0.copy()
            for p, v in S.items():
                y[pos[p]] = v
            try:
                dy = C.call(y, t=0)
            except Exception as e:
                sig['exc'] = type(e).__name__
                return viol('call_raises', detail=f'{type(e).__name__}: {e}'[:300])
            exp, _ = m.field(S)
            res['evals'] += 1
            for p in states:
                if abs(dy[pos[p]] - exp[p]) > 1e-9 * max(1.0, abs(exp[p])):
                    return viol('value_mismatch', var=p, got=float(dy[pos[p]]), expected=float(exp[p]), point=S)
        # the explicit network the property refers to (plain weights only)
        if not any(c.get('edge') for c in case['conns']):
            pool.fresh_state()
            try:
                ex = build_explicit(case)
                Cx = impl.compile_field(ex, {'vectorize': True})
                S0 = values.base_point(states, case.get('seed', 0))
                gx = Cx.field(S0, state_paths=states)
                exp, _ = m.field(S0)
                for p in states:
                    if abs(float(gx[p]) - exp[p]) > 1e-9 * max(1.0, abs(exp[p])):
                        sig['stage'] = 'explicit_network'
                        return viol('explicit_network_differs', var=p, got=float(gx[p]), expected=float(exp[p]))
            except Exception as e:
                sig['exc'] = type(e).__name__
                sig['stage'] = 'explicit_network'
                return viol('explicit_network_raises', detail=f'{type(e).__name__}: {e}'[:300])
    # trajectories through run(): population outputs, one column per unit in unit order
    pool.fresh_state()
    steps = 10
    outs = {pop: f'{pop}/{POPOP[pop][0]}/{POPOP[pop][1]}' for pop in case['pops']}
    outs.update({f'{pop}__reader': f'{pop}/{READER[pop]}/q' for pop in case['pops'] if pop in READER})
    try:
        circ = build_pop(case)
        extra = {'dde_approx': case['dde_approx']} if case.get('dde_approx') else {}
        df = circ.run(simulation_time=steps * DT, step_size=DT, sampling_step_size=DT, outputs=dict(outs), solver='euler',
                      backend='default', vectorize=True, verbose=False, float_precision='float64', clear=True, **extra)
    except Exception as e:
        sig['exc'] = type(e).__name__
        return viol('run_raises', detail=f'{type(e).__name__}: {e}'[:300])
    gamma = [c for c in case['conns'] if c.get('spread') or (c.get('delay') and case.get('dde_approx'))]
    if gamma:
        rows = gamma_reference(case, m, steps)
    else:
        rows = solvers.euler_delayed(m, DT, steps - 1)
    targets = [(pop, n, POPOP[pop][0], POPOP[pop][1], pop) for pop, n in case['pops'].items()] + \
        [(pop, n, READER[pop], 'q', f'{pop}__reader') for pop, n in case['pops'].items() if pop in READER]
    for pop, n, op, sv, okey in targets:
        for j in range(n):
            p = f'{pop}_{j}/{op}/{sv}'
            exp = np.array([r[p] for r in rows])
            try:
                col = df[okey] if n == 1 else df[(okey, j)]
            except Exception:
                return viol('columns', got=[str(c) for c in df.columns])
            got = np.asarray(col, dtype=float).reshape(-1)
            if got.shape != exp.shape or np.max(np.abs(got - exp)) > 1e-9 * max(1.0, np.max(np.abs(exp))):
                sig['stage'] = 'run'
                return viol('trajectory', var=p, got=got.tolist(), expected=exp.tolist())
    res['evals'] += steps
    res['outcome'] = hashlib.sha256(np.asarray(df.values, dtype=float).round(9).tobytes()).hexdigest()[:10]
    res['ok'] = True
    return res


def gamma_reference(case, m, steps):
    """explicit linear chain: n = round((d/s)^2) stages of rate n/d between source and target (per source unit)"""
    nodes = {k: list(v) for k, v in m.nodes.items()}
    ops = dict(OPS)
    edges = []
    for (src, tgt, tpl, a) in m.edges:
        edges.append((src, tgt, tpl, dict(a)))
    new_edges = []
    cid = 0
    for c in case['conns']:
        if not (c.get('spread') or (c.get('delay') and case.get('dde_approx'))):
            continue
        d, s = c['delay'], c.get('spread')
        # a spread defines its own kernel; dde_approx gives the order of connections that have a plain delay only
        n = max(1, int(round((d / s) ** 2))) if s else int(case['dde_approx'])
        rate = n / d
        sp, tp = c['src'], c['tgt']
        sop, ssv = POPOP[sp][0], POPOP[sp][1]
        for j in range(case['pops'][sp]):
            prev = f'{sp}_{j}/{sop}/{ssv}'
            for k in range(1, n + 1):
                opn = f'ch{cid}_{k}'
                ops[opn] = {'eqs': [f"d/dt * zz = rr*(cin - zz)"],
                            'vars': {'zz': 'output(0.0)', 'rr': rate, 'cin': 'input(0.0)'}}
                nodes[f'chain{cid}_{j}_{k}'] = [(opn, {})]
                new_edges.append((prev, f'chain{cid}_{j}_{k}/{opn}/cin', None, {'weight': 1.0}))
                prev = f'chain{cid}_{j}_{k}/{opn}/zz'
            # re-point the edges of this connection that leave unit j
            for e in edges:
                if e[0] == f'{sp}_{j}/{sop}/{ssv}' and e[1].startswith(f'{tp}_') and e[3].get('_conn', cid) == cid:
                    pass
            for idx, e in enumerate(edges):
                if e[0] == f'{sp}_{j}/{sop}/{ssv}' and e[1].split('_')[0] == tp:
                    a2 = dict(e[3])
                    a2.pop('delay', None)      # the delay is realised by the chain
                    edges[idx] = (prev, e[1], e[2], a2)
        cid += 1
    m2 = Model(ops, nodes, edges + new_edges, edge_tpls=m.edge_tpls)
    return solvers.euler_delayed(m2, DT, steps - 1)
