"""C19 - DDEHistory is the piecewise-linear interpolant of what it was given.

Explicit-state search (DFS with state copies) over all update sequences up to a depth bound, on the
real class; in every reached state every query of a lattice is compared with a list-based reference.
"""
import copy
import itertools
import multiprocessing as mp
import os

import numpy as np

LEVEL = 'model_checking'
BACKENDS = ()

DELTAS = (0.5, 1.0, 2.0)
SHAPES = {'s': (), 'v2': (2,), 'm22': (2, 2)}
DTYPES = ('float64', 'float32', 'complex128')


def yvals(shape, dtype, seed):
    """three pairwise distinct vectors: two of binary fractions (exact in float32), one that mixes magnitudes
    (2^40 next to 0.75) so that y_prev + 1.0*(y_i - y_prev) differs from y_i - 'exactly y_i at t = t_i' is then
    distinguishable from an interpolation that merely ends at y_i"""
    n = int(np.prod(shape)) if shape else 1
    base = [1.0, -2.5, 4.25, 0.75, -8.0, 3.5, 6.125, -0.375]
    rot = seed % len(base)
    base = base[rot:] + base[:rot]
    out = []
    for k in range(3):
        v = np.array([base[(k * 3 + i) % len(base)] * (1 + i) for i in range(n)], dtype='float64')
        if k == 2:
            v = v * np.array([2.0 ** 40 if i % 2 == 0 else 1.0 for i in range(n)])
        if dtype.startswith('complex'):
            v = v + 1j * np.array([base[(k + 2 * i + 1) % len(base)] for i in range(n)])
        out.append(v.astype(dtype).reshape(shape))
    return out


def make_hist(cfg):
    from pyrates.backend.base.base_backend import DDEHistory
    y = yvals(SHAPES[cfg['shape']], cfg['dtype'], cfg['seed'])
    y0 = y[cfg.get('y0', 0)].copy()
    if cfg['mode'] == 'grow':
        cls = type('H', (DDEHistory,), {'_INITIAL_CAPACITY': cfg['cap']})
        h = cls(y0, t0=cfg['t0'])
    elif cfg['mode'] == 'real':
        h = DDEHistory(y0, t0=cfg['t0'])
    else:
        h = DDEHistory(y0, t0=cfg['t0'], max_steps=cfg['cap'])
    y0 += 1000.0  # the caller's array is mutated after construction as well
    return h, y


class Ref:
    """boring reference: list of (t, copy of y), textbook interpolation in float64/complex128"""
    def __init__(self, t0, y0, bound=None):
        self.t = [float(t0)]
        self.y = [np.array(y0, dtype=complex if np.iscomplexobj(y0) else float)]
        self.bound = bound

    def full(self):
        return self.bound is not None and len(self.t) >= self.bound

    def update(self, t, y):
        self.t.append(float(t))
        self.y.append(np.array(y, dtype=self.y[0].dtype))

    def query(self, t):
        if t <= self.t[0]:
            return self.y[0]
        if t >= self.t[-1]:
            return self.y[-1]
        for i in range(len(self.t) - 1):
            if self.t[i] <= t < self.t[i + 1]:
                a = (t - self.t[i]) / (self.t[i + 1] - self.t[i])
                return (1 - a) * self.y[i] + a * self.y[i + 1]
        raise AssertionError('unreachable')

    def lattice(self):
        ts = self.t
        q = [ts[0] - 1.0, ts[0], ts[-1], ts[-1] + 1.0]
        for a, b in zip(ts[:-1], ts[1:]):
            q += [a, a + 0.25 * (b - a), a + 0.5 * (b - a), a + 0.75 * (b - a), b]
        return sorted(set(q))


def check_state(h, ref, tol):
    """all lattice queries agree; queries are pure (the object is unchanged by them)"""
    n_before = (len(h._t), h._n)
    nq = 0
    recorded = set(ref.t)
    for t in ref.lattice():
        try:
            got = np.asarray(h(t))
        except Exception as e:
            return nq, {'kind': 'query_raises', 't': t, 'detail': f'{type(e).__name__}: {e}'[:200]}
        exp = ref.query(t)
        nq += 1
        scale = max(1.0, float(np.max(np.abs(exp))))
        if t in recorded or t <= ref.t[0] or t >= ref.t[-1]:
            # at (or outside) recorded times the stored record itself has to come back, exactly
            ok = got.shape == exp.shape and np.array_equal(got.astype(exp.dtype), exp)
        else:
            i = max(j for j in range(len(ref.t)) if ref.t[j] <= t)
            scale = max(scale, float(np.max(np.abs(ref.y[i]))), float(np.max(np.abs(ref.y[min(i + 1, len(ref.y) - 1)]))))
            ok = got.shape == exp.shape and np.allclose(got, exp, rtol=0, atol=tol * scale)
        if not ok:
            return nq, {'kind': 'query_mismatch', 't': t, 'got': got.tolist() if got.dtype.kind != 'c' else str(got),
                        'expected': exp.tolist() if exp.dtype.kind != 'c' else str(exp)}
    if (len(h._t), h._n) != n_before:
        return nq, {'kind': 'query_mutates'}
    return nq, None


def apply_op(h, ref, yv, op):
    """op = (delta index, y index); returns violation or None. The caller's array is overwritten
    right after update() returns (stored records must be copies)."""
    di, yi = op
    t = ref.t[-1] + DELTAS[di]
    arr = yv[yi].copy()
    if ref.full():
        try:
            h.update(t, arr)
        except IndexError:
            return None, 'refused'
        except Exception as e:
            return {'kind': 'wrong_exception', 'detail': f'{type(e).__name__}: {e}'}, 'refused'
        return {'kind': 'overflow_accepted', 'detail': f'update #{len(ref.t)} accepted beyond max_steps={ref.bound}'}, 'x'
    try:
        h.update(t, arr)
    except Exception as e:
        return {'kind': 'update_raised', 'detail': f'{type(e).__name__}: {e}'}, 'x'
    ref.update(t, yv[yi])
    arr += 77.0
    return None, 'ok'


def explore(cfg, prefix, depth):
    """DFS below `prefix` on the real object; returns stats and first violation."""
    tol = 1e-6 if cfg['dtype'] == 'float32' else 1e-12
    h, yv = make_hist(cfg)
    ref = Ref(cfg['t0'], yv[cfg.get('y0', 0)], bound=cfg['cap'] if cfg['mode'] == 'bounded' else None)
    stats = {'states': 0, 'transitions': 0, 'queries': 0, 'refused': 0, 'grow_events': 0, 'max_rows': 0, 'nontrivial': 0}
    ops = list(itertools.product(range(len(DELTAS)), range(3)))
    for op in prefix:
        v, _ = apply_op(h, ref, yv, tuple(op))
        if v:
            return stats, {'seq': list(prefix), **v}

    def rec(h, ref, seq):
        stats['states'] += 1
        stats['nontrivial'] += len(ref.t) >= 2
        stats['max_rows'] = max(stats['max_rows'], len(ref.t))
        nq, v = check_state(h, ref, tol)
        stats['queries'] += nq
        if v:
            return {'seq': [list(o) for o in seq], **v}
        if len(seq) >= depth:
            return None
        for op in ops:
            h2, ref2 = copy.deepcopy(h), copy.deepcopy(ref)
            cap_before = len(h2._y)
            v, tag = apply_op(h2, ref2, yv, op)
            stats['transitions'] += 1
            if tag == 'refused':
                stats['refused'] += 1
            if len(h2._y) != cap_before:
                stats['grow_events'] += 1
            if v:
                return {'seq': [list(o) for o in seq + [op]], **v}
            if tag == 'refused':
                # state must be unchanged by the refused update
                nq, v = check_state(h2, ref2, tol)
                stats['queries'] += nq
                if v:
                    v['kind'] = 'refused_update_changed_state'
                    return {'seq': [list(o) for o in seq + [op]], **v}
                continue
            r = rec(h2, ref2, seq + [op])
            if r:
                return r
        return None

    return stats, rec(h, ref, [tuple(o) for o in prefix])


def _task(args):
    cfg, prefix, depth = args
    try:
        stats, v = explore(cfg, prefix, depth)
    except Exception as e:  # pragma: no cover
        import traceback
        stats, v = {}, {'kind': 'harness_error', 'detail': traceback.format_exc()[-1500:], 'seq': list(prefix)}
    return cfg, prefix, stats, v


def long_run(seed):
    """one deterministic 3000-step run through the real initial capacity (1024 -> 2048 -> 4096)"""
    cfg = {'shape': 'v2', 'dtype': 'float64', 'mode': 'real', 'cap': None, 't0': 0.0, 'seed': seed}
    h, yv = make_hist(cfg)
    ref = Ref(0.0, yv[0])
    nq = 0
    for k in range(3000):
        op = (k % 3, (k * 7 + k // 3) % 3)
        v, _ = apply_op(h, ref, yv, op)
        if v:
            return nq, {'seq': f'long_run step {k}', **v}
        if k in (5, 1022, 1023, 1024, 1025, 2046, 2047, 2048, 2049, 2999):
            ts = ref.t
            for t in [ts[0] - 1, ts[0], ts[1], 0.5 * (ts[1] + ts[2]), ts[len(ts) // 2], ts[-2] + 0.25 * (ts[-1] - ts[-2]),
                      ts[-1], ts[-1] + 3, 0.5 * (ts[1000 % len(ts)] + ts[(1000 % len(ts)) - 1])]:
                got, exp = np.asarray(h(t)), ref.query(t)
                nq += 1
                if not np.allclose(got, exp, rtol=1e-12, atol=1e-12):
                    return nq, {'seq': f'long_run step {k}', 'kind': 'query_mismatch', 't': t,
                                'got': got.tolist(), 'expected': exp.tolist()}
    return nq, None


def configs(tier, seed):
    main_depth = 6 if tier == 'quick' else 7
    side_depth = 3 if tier == 'quick' else 5
    out = []
    for shape in SHAPES:
        for dtype in DTYPES:
            for mode, cap in (('grow', 1), ('grow', 2), ('bounded', 1), ('bounded', 3)):
                for t0 in (0.0, 2.0):
                    is_main = (shape == 'v2' and dtype == 'float64' and mode == 'grow' and t0 == 0.0)
                    out.append(({'shape': shape, 'dtype': dtype, 'mode': mode, 'cap': cap, 't0': t0, 'seed': seed,
                                 'y0': 0}, main_depth if is_main else side_depth))
    return out


def main(ev, tier, seed):
    from .. import cli, findings
    tasks = []
    ops = list(itertools.product(range(len(DELTAS)), range(3)))
    for cfg, depth in configs(tier, seed):
        if depth >= 5:
            for p in itertools.product(ops, repeat=2):   # split the big ones below depth-2 prefixes
                tasks.append((cfg, [list(o) for o in p], depth))
            tasks.append((cfg, [], 1))                    # and the shallow part itself
        else:
            tasks.append((cfg, [], depth))
    tot = {'states': 0, 'transitions': 0, 'queries': 0, 'refused': 0, 'grow_events': 0, 'max_rows': 0, 'nontrivial': 0}
    viols = []
    ctx = mp.get_context('fork')
    import pyrates.backend.base.base_backend  # noqa  (pure class, safe to fork)
    with ctx.Pool(int(os.environ.get('PYX_NPROC', '16'))) as pool:
        for cfg, prefix, stats, v in pool.imap_unordered(_task, tasks, chunksize=1):
            for k in tot:
                tot[k] = max(tot[k], stats.get(k, 0)) if k == 'max_rows' else tot[k] + stats.get(k, 0)
            if v:
                viols.append(({'cfg': cfg, 'seq': v.pop('seq')}, v))
            elif stats.get('states', 0) > 1 and len(ev.cov['samples']) < 4:
                ev.sample({'cfg': cfg, 'prefix': prefix, 'states_below': stats['states']})
    nq, v = long_run(seed)
    tot['queries'] += nq
    tot['states'] += 3000
    tot['nontrivial'] += 3000
    tot['transitions'] += 3000
    if v:
        viols.append(({'cfg': 'long_run', 'seq': v.pop('seq')}, v))
    ev.cov.update({'states': tot['states'], 'transitions': tot['transitions'],
                   'traces_validated_against_impl': tot['states'], 'evaluations': tot['queries'],
                   'grow_events_crossed': tot['grow_events'], 'refused_updates_checked': tot['refused'],
                   'max_rows_reached': tot['max_rows'], 'configs': len(configs(tier, seed)),
                   'exhaustive': True,
                   'rule': 'all update sequences (delta in {0.5,1,2} x 3 distinct y, caller array overwritten after '
                           'every update) up to the depth bound per configuration (shape x dtype x capacity/bounded '
                           'x t0); in every state all lattice queries (before/at t0, every record, quarter/mid '
                           'points, at/after last) vs list-based reference; states are never merged (history is '
                           'append-only, every sequence is a distinct state); non-trivial = state with >=2 records',
                   'bounds': {'main_depth': 6 if tier == 'quick' else 7, 'side_depth': 3 if tier == 'quick' else 5,
                              'long_run_steps': 3000}})
    ev.nt_override = tot['nontrivial']
    known = findings.load('C19')
    rc = 0
    nk = 0
    for case, v in viols[:20]:
        v['sig'] = {'kind': v.get('kind')}
        hit = findings.match(v, known)
        if hit:
            nk += 1
            continue
        path = cli.write_replay('C19', case, v)
        print(f'VIOLATION property=C19 replay={path}')
        print('   ', str(v)[:400])
        rc = 1
    ev.violations = len(viols) - nk
    print(f"[C19] tier={tier} seed={seed} states={tot['states']} transitions={tot['transitions']} "
          f"queries={tot['queries']} grow_events={tot['grow_events']} refused={tot['refused']} violations={len(viols)}")
    return rc


def run_case(case):
    """replay of one recorded sequence"""
    if case['cfg'] == 'long_run':
        nq, v = long_run(0)
        return {'ok': v is None, 'viol': v}
    stats, v = explore(case['cfg'], case['seq'], len(case['seq']))
    if v:
        v['sig'] = {'kind': v.get('kind')}
    return {'ok': v is None, 'viol': v, 'states': stats.get('states')}
