"""C04 - vectorization does not change the model."""
import hashlib
import itertools

import numpy as np

from .. import spec as sp
from . import C01

LEVEL = 'exploration'
BACKENDS = ()
CHUNK = 4
DT = 0.125
W = [2.0, -0.5, 1.0, 3.0, 0.25]

OPS = {'lin': {'eqs': ["d/dt * x = -k*x"], 'vars': {'x': 'output(0.5)', 'k': 2.0}},
       't1': {'eqs': ["v' = -v + u"], 'vars': {'v': 'output(0.1)', 'u': 'input(0.7)'}},
       'e1': {'eqs': ["eo = ge*ei^2"], 'vars': {'eo': 'output(0.0)', 'ei': 'input(0.0)', 'ge': 0.5}},
       'e2': {'eqs': ["eo = ei*(1 - ep)"], 'vars': {'eo': 'output(0.0)', 'ei': 'input(0.0)', 'ep': 'input(0.0)'}}}


def net(n_lt=0, n_s=0, n_t=0, edges=(), etpl=False):
    """n_lt nodes with [lin, t1], n_s pure sources [lin], n_t pure targets [t1]; all parameters distinct per node"""
    tpls, nodes = {}, {}
    i = 0
    for kind, n, ops in (('p', n_lt, ['lin', 't1']), ('s', n_s, ['lin']), ('g', n_t, ['t1'])):
        for j in range(n):
            ov = {'lin': {'k': 1.0 + 0.5 * i, 'x': 0.3 + 0.2 * i}, 't1': {'v': 0.05 + 0.1 * i, 'u': 0.2 + 0.15 * i}}
            name = f'{kind}{j}'
            tpls[f'N{name}'] = [[o, ov[o]] for o in ops]
            nodes[name] = f'N{name}'
            i += 1
    return {'ops': OPS, 'node_tpls': tpls, 'edge_tpls': {'E1': [['e1', {}]], 'E2': [['e2', {}]]} if etpl else {}, 'share': True,
            'circuit': {'name': 'net', 'nodes': nodes, 'edges': [list(e) for e in edges]}}


def patterns(srcs, tgts, max_nonzero, full_alphabet=False):
    """weight patterns over the (target, source) grid: all patterns over {0, a, b} (full) or all subsets of
    <= max_nonzero positions with positional weights"""
    pos = [(s, t) for t in tgts for s in srcs]
    if full_alphabet:
        for combo in itertools.product((None, 2.0, -0.5), repeat=len(pos)):
            yield [(s, t, w) for (s, t), w in zip(pos, combo) if w is not None]
    else:
        for k in range(max_nonzero + 1):
            for sub in itertools.combinations(range(len(pos)), k):
                yield [(pos[p][0], pos[p][1], W[i % len(W)]) for i, p in enumerate(sub)]


def cases(tier, seed):
    out = []

    def add(spec, tag, ms=None, delayed=False):
        c = {'spec': spec, 'tag': tag, 'seed': seed, 'delayed': delayed}
        if ms is not None:
            c['matrix_sparseness'] = ms
        out.append(c)

    def edges_of(pat, etpl_on=None, delays=None, etpl_vals=False):
        es = []
        for i, (s, t, w) in enumerate(pat):
            a = {'weight': w}
            if delays and delays[i % len(delays)] is not None:
                a['delay'] = delays[i % len(delays)]
            tpl = 'E1' if (etpl_on is not None and i in etpl_on) else None
            if tpl and etpl_vals:
                a['e1/ge'] = 0.5 + 0.375 * i      # per-edge value of the edge operator's parameter
            es.append([f'{s}/lin/x', f'{t}/t1/u', tpl, a])
        return es
    # one type, recurrent: N=2 full alphabet x sparseness thresholds
    lt2 = ['p0', 'p1']
    for pat in patterns(lt2, lt2, 4, full_alphabet=True):
        for ms in (0.0, 0.1, 0.5, 1.0) if tier != 'quick' else (0.1, 1.0):
            add(net(n_lt=2, edges=edges_of(pat)), 'lt2', ms)
    lt3 = ['p0', 'p1', 'p2']
    for pat in patterns(lt3, lt3, 3):
        for ms in (0.1, 1.0) if tier != 'quick' else (0.1,):
            add(net(n_lt=3, edges=edges_of(pat)), 'lt3', ms)
    # two types: sources -> targets (fan-in from several nodes), non-square
    for ns, nt in ((2, 1), (1, 2), (2, 2), (3, 2)) + (((2, 3), (3, 3)) if tier != 'quick' else ()):
        S, G = [f's{i}' for i in range(ns)], [f'g{i}' for i in range(nt)]
        for pat in patterns(S, G, 3 if ns * nt > 4 else 4, full_alphabet=(ns * nt <= 4 and tier != 'quick')):
            add(net(n_s=ns, n_t=nt, edges=edges_of(pat)), f's{ns}g{nt}', 0.1)
    # mixture of node types with fan-in from both types onto one target
    for pat in patterns(['p0', 'p1', 's0'], ['p0', 'p1', 'g0'], 3):
        sp_ = net(n_lt=2, n_s=1, n_t=1, edges=edges_of(pat))
        add(sp_, 'mixed', 0.1)
    # delays
    for pat in patterns(lt2, lt2, 2):
        if not pat:
            continue
        for delays in ([2 * DT], [3 * DT, None], [2 * DT, 3 * DT]):
            add(net(n_lt=2, edges=edges_of(pat, delays=delays)), 'delay', 0.1, delayed=True)
    # edge templates
    for pat in patterns(lt2, lt2, 2 if tier == 'quick' else 3):
        if not pat:
            continue
        for on in ([0], list(range(len(pat)))):
            add(net(n_lt=2, edges=edges_of(pat, etpl_on=on), etpl=True), 'edge_tpl', 0.1)
        add(net(n_lt=2, edges=edges_of(pat, etpl_on=list(range(len(pat))), etpl_vals=True), etpl=True), 'edge_tpl_values', 0.1)
    for pat in list(patterns(lt3, lt3, 3))[10::7]:
        add(net(n_lt=3, edges=edges_of(pat, etpl_on=list(range(len(pat))), etpl_vals=True), etpl=True), 'edge_tpl_values3', 0.1)
    # delays realised as chains (spread / dde_approx) between merged nodes, edges listed in and against node order
    for order in itertools.permutations([('p0', 'p1'), ('p1', 'p0'), ('p1', 'p2'), ('p2', 'p0')], 2):
        for ds, approx in (((0.5, 0.35355339), 0), ((0.5, None), 3), ((1.0, 0.5), 0)):
            e = []
            for i, (s_, t_) in enumerate(order):
                a = {'weight': W[i], 'delay': ds[0]}
                if ds[1]:
                    a['spread'] = ds[1]
                e.append([f'{s_}/lin/x', f'{t_}/t1/u', None, a])
            c = {'spec': net(n_lt=3, edges=e), 'tag': 'chain_delay', 'seed': seed, 'delayed': True, 'chain': True}
            if approx:
                c['dde_approx'] = approx
            out.append(c)
    # ... and groups whose sources cover every member of the merged vector exactly once, in every listing order
    for nlt in (2, 3):
        P = [f'p{i}' for i in range(nlt)]
        ring = [(P[i], P[(i + 1) % nlt]) for i in range(nlt)]
        for order in itertools.permutations(ring):
            for ds, approx in (((0.5, 0.35355339), 0), ((0.5, None), 3)):
                e = []
                for i, (s_, t_) in enumerate(order):
                    a = {'weight': W[i], 'delay': ds[0]}
                    if ds[1]:
                        a['spread'] = ds[1]
                    e.append([f'{s_}/lin/x', f'{t_}/t1/u', None, a])
                c = {'spec': net(n_lt=nlt, edges=e), 'tag': 'chain_delay_cover', 'seed': seed, 'delayed': True, 'chain': True}
                if approx:
                    c['dde_approx'] = approx
                out.append(c)
    # edge templates with a second input that is wired to a named variable of any member of the merged group
    for s_, t_ in itertools.permutations(lt3, 2):
        for named in lt3:
            e = [[f'{s_}/lin/x', f'{t_}/t1/u', 'E2', {'weight': 1.5, 'E2/e2/ei': 'source', 'E2/e2/ep': f'{named}/lin/x'}]]
            add(net(n_lt=3, edges=e, etpl=True), 'edge_tpl_named_input', 0.1)
    for named1, named2 in itertools.product(lt3, lt3):
        e = [['p0/lin/x', 'p1/t1/u', 'E2', {'weight': 1.5, 'E2/e2/ei': 'source', 'E2/e2/ep': f'{named1}/lin/x'}],
             ['p1/lin/x', 'p2/t1/u', 'E2', {'weight': -0.5, 'E2/e2/ei': 'source', 'E2/e2/ep': f'{named2}/lin/x'}]]
        add(net(n_lt=3, edges=e, etpl=True), 'edge_tpl_named_input2', 0.1)
    # nodes that are merged although their operators carry different NAMES, each with two structurally identical
    # operators (excitatory / inhibitory synapse) that differ in their values only
    syn = lambda: {'eqs': ["d/dt * c = -c/tau + g*s"], 'vars': {'c': 'output(0.0)', 'tau': 0.5, 'g': 1.0, 's': 'input(0.0)'}}
    rate = lambda: {'eqs': ["d/dt * r = (-r + tanh(c))/T"], 'vars': {'r': 'output(0.1)', 'T': 0.4, 'c': 'input(0.0)'}}
    nops = {'syn_e': syn(), 'syn_i': syn(), 'exc': syn(), 'inh': syn(), 'ex3': syn(), 'in3': syn(), 'rate': rate(), 'rt': rate(),
            'r3': rate(), 'drv': {'eqs': ["d/dt * z = -z*q + p"], 'vars': {'z': 'output(1.0)', 'q': 3.0, 'p': 'input(0.0)'}}}
    ntpl = {'A': [['syn_e', {'tau': 0.5, 'g': 2.0, 'c': 0.2}], ['syn_i', {'tau': 0.8, 'g': -3.0, 'c': -0.1}], ['rate', {'T': 0.4, 'r': 0.1}]],
            'B': [['exc', {'tau': 0.6, 'g': 1.5, 'c': 0.3}], ['inh', {'tau': 0.9, 'g': -1.0, 'c': 0.15}], ['rt', {'T': 0.7, 'r': 0.3}]],
            'C3': [['ex3', {'tau': 0.7, 'g': 0.5, 'c': -0.2}], ['in3', {'tau': 1.1, 'g': -2.0, 'c': 0.05}], ['r3', {'T': 0.55, 'r': -0.2}]],
            'D': [['drv', {}]]}
    e_all = [['a/rate/r', 'b/exc/s', None, {'weight': 1.0}], ['b/rt/r', 'a/syn_i/s', None, {'weight': 1.2}],
             ['b/rt/r', 'a/syn_e/s', None, {'weight': 0.4}], ['d/drv/z', 'b/inh/s', None, {'weight': 0.8}],
             ['d/drv/z', 'a/syn_e/s', None, {'weight': 0.6}], ['a/rate/r', 'd/drv/p', None, {'weight': 0.5}]]
    for ne in (0, 2, 4, 6):
        add({'ops': nops, 'node_tpls': {k_: ntpl[k_] for k_ in ('A', 'B', 'D')}, 'edge_tpls': {}, 'share': True,
             'circuit': {'name': 'net', 'nodes': {'a': 'A', 'b': 'B', 'd': 'D'}, 'edges': e_all[:ne]}}, 'renamed_operators', 0.1)
    add({'ops': nops, 'node_tpls': ntpl, 'edge_tpls': {}, 'share': True,
         'circuit': {'name': 'net', 'nodes': {'a': 'A', 'b': 'B', 'cc': 'C3', 'd': 'D'},
                     'edges': e_all[:3] + [['cc/r3/r', 'a/syn_i/s', None, {'weight': -0.7}],
                                           ['a/rate/r', 'cc/ex3/s', None, {'weight': 0.9}]]}}, 'renamed_operators3', 0.1)
    # groups of >= 10 edges: the sparseness rule switches to the indexed path by itself (default threshold 0.1)
    for nt in (10, 11, 12):
        G = [f'g{i}' for i in range(nt)]
        add(net(n_s=1, n_t=nt, edges=edges_of([('s0', g, W[i % len(W)] + 0.125 * i) for i, g in enumerate(G)])), f'fanout{nt}')
        add(net(n_s=2, n_t=nt, edges=edges_of([(f's{i % 2}', g, W[i % len(W)] + 0.125 * i) for i, g in enumerate(G)])), f'fanout2x{nt}')
    P12 = [f'p{i}' for i in range(12)]
    add(net(n_lt=12, edges=edges_of([(P12[i], P12[(i + 1) % 12], 0.5 + 0.25 * i) for i in range(12)])), 'ring12')
    add(net(n_lt=12, edges=edges_of([('p0', P12[i], 0.5 + 0.25 * i) for i in range(12)])), 'hub12')
    add(net(n_lt=12, edges=edges_of([(P12[i ^ 1], P12[i], 0.5 + 0.25 * i) for i in range(12)])), 'pairs12')
    # one-to-one projections between two groups of 12 (sparse: indexed path), the edges listed in / against node order
    # and mapping node i to node perm(i); the permutations keep, move or swap the end points
    S12, T12 = [f's{i}' for i in range(12)], [f'g{i}' for i in range(12)]
    perms = {'identity': list(range(12)), 'reversed': list(range(11, -1, -1)),
             'inner_pairs': [0] + [i ^ 1 if 1 <= i <= 10 and ((i - 1) ^ 1) + 1 <= 10 else i for i in range(1, 11)] + [11],
             'rotate': [(i + 5) % 12 for i in range(12)], 'ends_swapped': [11] + list(range(1, 11)) + [0]}
    perms['inner_pairs'] = [0, 2, 1, 4, 3, 6, 5, 8, 7, 10, 9, 11]
    for pname, pm in perms.items():
        # listing order permuted (edge k: s_pm[k] -> g_pm[k]) and mapping permuted (edge k: s_k -> g_pm[k])
        add(net(n_s=12, n_t=12, edges=edges_of([(S12[pm[k]], T12[pm[k]], 0.5 + 0.25 * pm[k]) for k in range(12)])),
            f'one2one12_listed_{pname}')
        add(net(n_s=12, n_t=12, edges=edges_of([(S12[k], T12[pm[k]], 0.5 + 0.25 * k) for k in range(12)])),
            f'one2one12_mapped_{pname}')
    # merged nodes with delayed terms and per-node delays (vectorized vs non-vectorized runs; C10's runner)
    from . import C10
    out += [dict(c_, delegate='C10', tag='delayed_terms') for c_ in C10.cases(tier, seed) if c_.get('kind') == 'vec' and c_['n'] > 1]
    if tier != 'quick':
        lt4 = ['p0', 'p1', 'p2', 'p3']
        for pat in patterns(lt4, lt4, 3):
            add(net(n_lt=4, edges=edges_of(pat)), 'lt4', 0.1)
        # 4x4 dense-ish nets that cross the default sparseness threshold naturally
        for k in (8, 12, 16):
            pos = [(s, t) for t in lt4 for s in lt4][:k]
            add(net(n_lt=4, edges=edges_of([(s, t, W[i % len(W)]) for i, (s, t) in enumerate(pos)])), 'lt4dense', 0.1)
    return out


def describe(tier, seed):
    return {'rule': 'circuits of 1..N structurally identical nodes per type with pairwise distinct per-node parameters and '
                    'initial values; every weight pattern over a 3-value alphabet for 2x2 blocks, all patterns with <=3 '
                    'non-zeros for larger blocks, two node types, fan-in from both types, delays, edge templates, '
                    'matrix_sparseness thresholds; each compiled with vectorize on and off (fresh state), derivative per '
                    'frontend variable at base point + all single deviations and euler trajectories compared with each '
                    'other and with the reference semantics; non-trivial = at least one edge; distinct = (spec, sparseness)',
            'bounds': {'nodes_per_type': 3 if tier == 'quick' else 4, 'nonzero_weights': 4}}


def run_case(case):
    from .. import build, pool
    from ..refsem import solvers
    if case.get('delegate') == 'C10':
        from . import C10
        r = C10.run_case(case)
        r['nontrivial'] = True
        return r
    spec = case['spec']
    res = {'evals': 0}
    nodes, edges = sp.flatten(spec)
    res['nontrivial'] = len(edges) > 0
    feats = list(C01.features(spec, True))
    sig = {'features': feats, 'tag': case['tag']}

    def viol(kind, **kw):
        res['viol'] = dict(kind=kind, sig=dict(sig, kind=kind), **kw)
        res['ok'] = False
        return res
    if case.get('chain'):
        # both settings against the explicitly written chain of first-order stages (C11's reference)
        from . import C11
        for vec in (False, True):
            pool.fresh_state()
            r = C11.run_case({'spec': spec, 'vectorize': vec, 'tag': case['tag'], 'solver': 'euler',
                              'dde_approx': case.get('dde_approx', 0)})
            res['evals'] += r.get('evals', 0)
            if not r.get('ok'):
                res['viol'] = r['viol']
                res['ok'] = False
                return res
        res['outcome'] = 'chain'
        res['ok'] = True
        return res
    cfg_extra = {}
    if 'matrix_sparseness' in case:
        cfg_extra['matrix_sparseness'] = case['matrix_sparseness']
    # (1) vector field at the probe points, both settings, against the reference (and hence against each other)
    if not case.get('delayed'):
        for vec in (False, True):
            pool.fresh_state()
            r = C01.run_case({'spec': spec, 'cfg': dict(cfg_extra, vectorize=vec), 'seed': case.get('seed', 0)})
            res['evals'] += r.get('evals', 0)
            if not r.get('ok'):
                v = r['viol']
                v['sig'] = dict(v.get('sig') or {}, tag=case['tag'], vectorize=vec, stage='field')
                res['viol'] = v
                res['ok'] = False
                return res
    # (2) euler trajectories via run() with wildcard outputs, both settings
    m = sp.refmodel(spec)
    steps = 8
    frames = {}
    states = [p for p in m.state_vars() if not p.startswith('__e')]
    outs = {f'o{i}': p for i, p in enumerate(states)}
    for vec in (False, True):
        pool.fresh_state()
        try:
            circ = build.build_py(spec)
            frames[vec] = circ.run(simulation_time=steps * DT, step_size=DT, sampling_step_size=DT, outputs=dict(outs),
                                   solver='euler', backend='default', vectorize=vec, verbose=False,
                                   float_precision='float64', clear=True, **cfg_extra)
        except Exception as e:
            sig['exc'] = type(e).__name__
            sig['vectorize'] = vec
            return viol('raises', stage='run', detail=f'{type(e).__name__}: {e}'[:300])
    rows = solvers.euler_delayed(m, DT, steps - 1)
    for k, p in outs.items():
        exp = np.array([r[p] for r in rows])
        a, b = np.asarray(frames[False][k], dtype=float), np.asarray(frames[True][k], dtype=float)
        if a.shape != b.shape or np.max(np.abs(a - b)) > 1e-9 * max(1.0, np.max(np.abs(a))):
            sig['stage'] = 'run'
            return viol('vectorized_differs', var=p, off=a.tolist(), on=b.tolist(), expected=exp.tolist())
        if np.max(np.abs(a - exp)) > 1e-9 * max(1.0, np.max(np.abs(exp))):
            sig['stage'] = 'run'
            return viol('trajectory', var=p, got=a.tolist(), expected=exp.tolist())
    res['evals'] += 2 * steps
    res['outcome'] = hashlib.sha256(np.asarray(frames[True].values, dtype=float).round(9).tobytes()).hexdigest()[:10]
    res['ok'] = True
    return res
