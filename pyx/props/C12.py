"""C12 - get_jacobian_func returns the derivative of get_run_func (central differences in float64)."""
import hashlib
import itertools
import json

import numpy as np

from .. import gen
from . import C01, C10

LEVEL = 'exploration'
BACKENDS = ('jax',)
X64 = True
CHUNK = 4
DT = 0.125

FUNC_OPS = {
    'F1': {'eqs': ["d/dt * x = -k*x*z + sigmoid(z)", "d/dt * z = -z + x^2"], 'vars': {'x': 'output(0.6)', 'z': 'variable(0.4)', 'k': 2.0}},
    'F2': {'eqs': ["d/dt * x = sin(x)*cos(z) - tanh(k*z)", "d/dt * z = exp(-x) + log(1 + z^2)"],
           'vars': {'x': 'output(0.6)', 'z': 'variable(0.4)', 'k': 1.5}},
    'F3': {'eqs': ["d/dt * x = -absv(x) + z*absv(z - x)", "d/dt * z = -z + absv(k*x)"],
           'vars': {'x': 'output(-0.6)', 'z': 'variable(0.4)', 'k': -1.5}},
    'F4': {'eqs': ["d/dt * x = -x + m", "m = g*tanh(z) + x*z", "d/dt * z = -z + a*x"],
           'vars': {'x': 'output(0.6)', 'z': 'variable(0.4)', 'm': 'variable(0.0)', 'g': 1.5, 'a': 0.7}},
    'F5': {'eqs': ["d/dt * x = sqrt(1 + x^2) - arctan(z)", "d/dt * z = sinh(x)/cosh(z) - z^3", "d/dt * w = x*z*w - w/(1 + x^2)"],
           'vars': {'x': 'output(0.6)', 'z': 'variable(0.4)', 'w': 'variable(0.9)'}},
    'F6': {'eqs': ["d/dt * x = sigmoid(s*(z - x)) - x", "d/dt * z = tan(0.3*x) + arcsin(0.5*z) - arccos(0.2*x)"],
           'vars': {'x': 'output(0.6)', 'z': 'variable(0.4)', 's': 3.0}},
}


def cases(tier, seed):
    out = []
    for name in FUNC_OPS:
        for sparse in (False, True):
            out.append({'kind': 'op', 'op': name, 'sparse': sparse, 'backend': 'default'})
        if tier != 'quick' or name in ('F1', 'F4'):
            out.append({'kind': 'op', 'op': name, 'sparse': False, 'backend': 'jax'})
    # circuits with edges (C01 library), scalar
    nodes = ['L', 'SA', 'AO', 'T1', 'T2', 'LT', 'PT', 'XV', 'TW', 'TU'] if tier == 'quick' else gen.QUICK_NODES
    seen = set()
    for lt, edges in gen.flat_circuits(2, 2, nodes, with_self=True):
        if not edges:
            continue
        s = gen.make_spec(lt, edges)
        key = json.dumps(s, sort_keys=True)
        if key in seen or gen.has_alg_loop(s):
            continue
        seen.add(key)
        if tier == 'quick' and len(seen) % 4:
            continue
        out.append({'kind': 'spec', 'spec': s, 'sparse': len(seen) % 2 == 0, 'backend': 'default'})
    # edge templates incl. stateful edge operators are part of the spec library (E1)
    for lt, edges in gen.flat_circuits(2, 1, ['L', 'SA', 'T1', 'T2'], with_self=False):
        if edges:
            e = [[edges[0][0], edges[0][1], 'E1', dict(edges[0][3])]]
            out.append({'kind': 'spec', 'spec': gen.make_spec(lt, e), 'sparse': False, 'backend': 'default'})
    # delayed models: delayed variable at each position, several delays, instantaneous entries with a delayed factor
    for nstate in (1, 2, 3):
        opts = [(v, d, 'past') for v in C10.VARS[:nstate] for d, _ in C10.DELAYS[:3]]
        for target in range(nstate):
            for k in (1, 2):
                combos = list(itertools.combinations(opts, k))
                for terms in combos[::(1 if k == 1 else (5 if tier == 'quick' else 1))]:
                    for prod in (False, True):
                        out.append({'kind': 'dde', 'nstate': nstate, 'terms': [list(t) for t in terms], 'target': target,
                                    'prod': prod, 'sparse': False, 'backend': 'default'})
    # delayed edges under an adaptive solver: one source variable fanning out with different delays into different
    # target equations, chains, and two sources onto one target
    dops = {'so': {'eqs': ["d/dt * x = -k*x*x"], 'vars': {'x': 'output(0.6)', 'k': 0.8}},
            'tn': {'eqs': ["d/dt * v = -v + tanh(u)"], 'vars': {'v': 'output(0.1)', 'u': 'input(0.0)'}}}
    tp = {'S': [['so', {}]], 'S2': [['so', {'k': 1.3, 'x': 0.4}]], 'T': [['tn', {}]], 'T2': [['tn', {'v': -0.2}]]}
    for d1, d2 in ((0.5, 1.0), (1.0, 0.5), (0.5, 0.5), (0.3, 1.0)):
        nets = {'fanout': ({'a': 'S', 'b': 'T', 'cc': 'T2'}, [['a/so/x', 'b/tn/u', None, {'weight': 2.0, 'delay': d1}],
                                                             ['a/so/x', 'cc/tn/u', None, {'weight': -0.5, 'delay': d2}]]),
                'chain': ({'a': 'S', 'b': 'T', 'cc': 'T2'}, [['a/so/x', 'b/tn/u', None, {'weight': 2.0, 'delay': d1}],
                                                            ['b/tn/v', 'cc/tn/u', None, {'weight': 1.5, 'delay': d2}]]),
                'fanin': ({'a': 'S', 'a2': 'S2', 'b': 'T'}, [['a/so/x', 'b/tn/u', None, {'weight': 2.0, 'delay': d1}],
                                                            ['a2/so/x', 'b/tn/u', None, {'weight': -0.5, 'delay': d2}]])}
        for name, (nodes_, edges_) in nets.items():
            out.append({'kind': 'spec', 'sparse': False, 'backend': 'default', 'delays': sorted({d1, d2}),
                        'spec': {'ops': dops, 'node_tpls': tp, 'edge_tpls': {}, 'share': True,
                                 'circuit': {'name': 'net', 'nodes': nodes_, 'edges': edges_}}})
    return out


def describe(tier, seed):
    return {'rule': 'scalar models: 6 operators covering sigmoid, absv, every transcendental and algebraic intermediates; C01 '
                    'library circuits with 1-2 edges and edge templates; delayed operators with the delayed variable at every '
                    'position of the state vector, 1-2 distinct delays, additive and multiplicative (instantaneous factor) '
                    'delayed terms; sparse on/off: J(t, y, ...) at 3 points vs central differences (h = 1e-6) of the function '
                    'from get_run_func of an identically built model in the same state ordering; history matrices vs '
                    'differences w.r.t. the state delayed by each distinct delay; every delayed case additionally with '
                    'sparse=True: csr containers equal to the dense J0 / history matrices, in the same order; '
                    'non-trivial = all',
            'bounds': {'state_vars': 4}}


def dde_op(nstate, terms, target, prod):
    op = C10.make_op(nstate, [tuple(t) for t in terms], target, neg=False)
    if prod:
        # multiply the first delayed term by the equation's own variable: instantaneous entry with a delayed factor
        v = C10.VARS[target]
        t0 = C10.term(*terms[0])
        op['eqs'][target] = op['eqs'][target].replace(f'2.0*{t0}', f'2.0*{t0}*{v}')
    return op


def run_case(case):
    from pyrates import OperatorTemplate, NodeTemplate, CircuitTemplate
    from .. import build, impl, pool
    import copy
    res = {'evals': 0, 'nontrivial': True}
    sig = {'features': [], 'kind_case': case['kind'], 'sparse': case['sparse'], 'backend': case['backend']}

    def viol(kind, **kw):
        res['viol'] = dict(kind=kind, sig=dict(sig, kind=kind), **kw)
        res['ok'] = False
        return res

    def mk():
        if case['kind'] == 'spec':
            return build.build_py(case['spec'])
        op = FUNC_OPS[case['op']] if case['kind'] == 'op' else dde_op(case['nstate'], case['terms'], case['target'], case['prod'])
        o = OperatorTemplate('jop', equations=list(op['eqs']), variables=copy.deepcopy(op['vars']))
        return CircuitTemplate('c', nodes={'n': NodeTemplate('n', operators=[o])})
    solver = 'scipy' if case['kind'] == 'dde' or case.get('delays') else 'euler'
    try:
        C = impl.compile_field(mk(), {'vectorize': False, 'dt': DT, 'solver': solver, 'backend': case['backend']})
        pool.fresh_state()
        kw = dict(step_size=DT, vectorize=False, verbose=False, float_precision='float64', backend=case['backend'],
                  sparse=case['sparse'], in_place=False)
        if solver == 'scipy':
            kw['solver'] = 'scipy'
        J, ja, jn, js = mk().get_jacobian_func('jf', **kw)
        Js = jas = None
        if C.has_hist and not case['sparse'] and case['backend'] == 'default':
            # "sparse=True changes only the container": same matrices, in the same order, as the dense function
            pool.fresh_state()
            Js, jas, _, _ = mk().get_jacobian_func('jfs', **dict(kw, sparse=True))
    except Exception as e:
        sig['exc'] = type(e).__name__
        return viol('raises', detail=f'{type(e).__name__}: {e}'[:300])
    if dict(js) != {k: v for k, v in C.svm.items()}:
        return viol('state_ordering_differs', jac=str(js), run=str(C.svm))
    n = C.n
    y0 = C.y0().astype(float)
    is_dde = C.has_hist
    # distinct delays (values) of a dde case
    delays = list(case.get('delays') or [])
    if case['kind'] == 'dde':
        dv = dict(C10.DELAYS)
        for t in case['terms']:
            d = dv[t[1]]
            if d not in delays:
                delays.append(d)

    def base_hist(s):
        return np.array([0.3 + 0.2 * i + (0.5 - 0.1 * i) * s + 0.05 * s * s for i in range(n)])
    h = 1e-6
    for pt in range(3):
        y = y0 + 0.17 * pt * (1 + np.arange(n)) * (-1) ** np.arange(n)
        t = 0.4 + 0.9 * pt if is_dde else 0.0
        try:
            jargs = list(ja)
            jargs[0] = t
            jargs[1] = y.copy()
            if is_dde:
                jargs[2] = base_hist
            out = J(*jargs)
        except Exception as e:
            sig['exc'] = type(e).__name__
            return viol('jacobian_call_raises', detail=f'{type(e).__name__}: {e}'[:300])
        if is_dde:
            J0, Jh = out
        else:
            J0, Jh = out, []
        dense = lambda M: np.asarray(M.todense()) if hasattr(M, 'todense') else np.asarray(impl.to_np(M))
        J0 = dense(J0)
        if case['sparse'] and not hasattr(out if not is_dde else out[0], 'todense'):
            return viol('sparse_container', type=str(type(out)))

        def f(yy, hist=None):
            return C.call(yy.copy(), t=t, hist=hist if hist is not None else (base_hist if is_dde else None))
        FD = np.zeros((n, n))
        for j in range(n):
            e = np.zeros(n)
            e[j] = h
            FD[:, j] = (f(y + e) - f(y - e)) / (2 * h)
        res['evals'] += 1
        if J0.shape != (n, n) or np.max(np.abs(J0 - FD)) > 1e-6 * max(1.0, np.max(np.abs(FD))):
            return viol('jacobian_differs', point=pt, got=J0.tolist(), expected=FD.round(8).tolist())
        if is_dde:
            fds = []
            for d in delays:
                M = np.zeros((n, n))
                for j in range(n):
                    def hist_p(s, sgn, j=j, d=d):
                        v = base_hist(s)
                        if abs(s - (t - d)) < 1e-9:
                            v = v.copy()
                            v[j] += sgn * h
                        return v
                    M[:, j] = (f(y, lambda s: hist_p(s, 1)) - f(y, lambda s: hist_p(s, -1))) / (2 * h)
                fds.append(M)
            got = [dense(M) for M in Jh]
            if len(got) != len(fds):
                return viol('history_matrix_count', got=len(got), expected=len(fds))
            used = set()
            for M in fds:
                hit = [i for i, G in enumerate(got) if i not in used and G.shape == M.shape and
                       np.max(np.abs(G - M)) <= 1e-6 * max(1.0, np.max(np.abs(M)))]
                if not hit:
                    return viol('history_jacobian_differs', point=pt, got=[G.tolist() for G in got], expected=M.round(8).tolist())
                used.add(hit[0])
            if Js is not None:
                sargs = list(jas)
                sargs[0], sargs[1], sargs[2] = t, y.copy(), base_hist
                try:
                    S0, Sh = Js(*sargs)
                except Exception as e:
                    sig['exc'] = type(e).__name__
                    return viol('sparse_jacobian_call_raises', detail=f'{type(e).__name__}: {e}'[:300])
                res['evals'] += 1
                if not all(hasattr(M, 'todense') for M in [S0] + list(Sh)):
                    return viol('sparse_container', type=str([type(M).__name__ for M in [S0] + list(Sh)]))
                if len(Sh) != len(got):
                    return viol('sparse_history_matrix_count', got=len(Sh), expected=len(got))
                for i, (A, B) in enumerate(zip([S0] + list(Sh), [J0] + got)):
                    A = dense(A)
                    if A.shape != B.shape or not np.array_equal(A, B):
                        return viol('sparse_changes_more_than_container', point=pt, matrix=i, sparse=A.tolist(), dense=B.tolist())
    res['outcome'] = hashlib.sha256(np.round(J0, 6).tobytes()).hexdigest()[:10]
    res['ok'] = True
    return res
