"""C11 - distributed delays are unit-gain gamma kernels with the stated mean."""
import hashlib
import itertools

import numpy as np

from .. import spec as sp
from ..refsem import Model, solvers
from . import C09

LEVEL = 'exploration'
BACKENDS = ()
CHUNK = 4
DT = 0.0625
# (delay, spread) -> order round((d/s)^2): 1, 2, 2.4->2, 2.6->3, 4
DS = [(1.0, 1.0), (1.0, 0.70710678), (1.0, 0.64549722), (1.0, 0.62017367), (1.0, 0.5), (0.5, 0.35355339)]
ORDER = [1, 2, 2, 3, 4, 2]


def edge(src, tgt, ds, i, sop='ro'):
    a = {'weight': C09.WEIGHTS[i % 4]}
    if ds is not None:
        a['delay'], a['spread'] = ds
    return [f'{src}/{sop}/z', f'{tgt}/to/u', None, a]


def cases(tier, seed):
    out = []

    def add(spec, tag, **kw):
        for vec in (False, True):
            for solver in ('euler',) + (('scipy',) if tier != 'quick' or tag == 'one' else ()):
                out.append(dict({'spec': spec, 'vectorize': vec, 'tag': tag, 'solver': solver}, **kw))
    opts = [None] + list(range(len(DS)))
    g = lambda i: None if i is None else DS[i]
    for i in range(len(DS)):
        add(C09.make(['r'], ['a'], [edge('r', 'a', DS[i], 0)]), 'one')
    for i, j in itertools.product(opts, opts):
        if i is None and j is None:
            continue
        add(C09.make(['r'], ['a', 'b'], [edge('r', 'a', g(i), 0), edge('r', 'b', g(j), 1)]), 'shared_source')
        if tier != 'quick' or (i is not None and j is not None and i <= j):
            add(C09.make(['r', 'q'], ['a'], [edge('r', 'a', g(i), 0), edge('q', 'a', g(j), 1)]), 'shared_target')
            # the same with the edges listed against the declaration order of their (merged) sources, and crossed
            add(C09.make(['r', 'q'], ['a'], [edge('q', 'a', g(j), 1), edge('r', 'a', g(i), 0)]), 'shared_target_perm')
            add(C09.make(['r', 'q'], ['a', 'b'], [edge('q', 'a', g(i), 0), edge('r', 'b', g(j), 1)]), 'crossed')
    if tier == 'quick':
        # a kernel shared by two edges listed before / between / after another kernel (one source; two merged sources)
        for i, j in itertools.permutations(range(len(DS)), 2):
            for trip in ((i, i, j), (i, j, i), (j, i, i)):
                add(C09.make(['r'], ['a', 'b', 'cc'], [edge('r', t, DS[k], n) for n, (t, k) in enumerate(zip(['a', 'b', 'cc'], trip))]),
                    'shared_source3')
            if i < 3 and j < 4:
                add(C09.make(['r', 'q'], ['a', 'b'], [edge('r', 'a', DS[i], 0), edge('q', 'a', DS[i], 1), edge('r', 'b', DS[j], 2)]),
                    'two_sources_shared_kernel')
                add(C09.make(['r', 'q'], ['a', 'b'], [edge('q', 'b', DS[j], 2), edge('q', 'a', DS[i], 1), edge('r', 'a', DS[i], 0)]),
                    'two_sources_shared_kernel')
    if tier != 'quick':
        for i, j, k in itertools.product(opts[1:5], repeat=3):
            add(C09.make(['r'], ['a', 'b', 'cc'], [edge('r', 'a', g(i), 0), edge('r', 'b', g(j), 1), edge('r', 'cc', g(k), 2)]),
                'shared_source3')
    # dde_approx = n on plain delays
    for n in (1, 2, 3):
        for d in (0.5, 1.0):
            s = C09.make(['r'], ['a', 'b'], [edge('r', 'a', None, 0), edge('r', 'b', None, 1)])
            s['circuit']['edges'][0][3]['delay'] = d
            s['circuit']['edges'][1][3]['delay'] = 2 * d
            add(s, 'dde_approx', dde_approx=n)
    # the source of a kernel edge is also read by another operator of its own node (which sees the present value)
    for i in range(len(DS)):
        for order in (('ro', 'rd'), ('rd', 'ro')):
            tpls = {'M': [[o, {}] for o in order], 'Ta': [['to', {}]]}
            add({'ops': C09.OPS, 'node_tpls': tpls, 'edge_tpls': {}, 'share': True,
                 'circuit': {'name': 'net', 'nodes': {'m': 'M', 'a': 'Ta'},
                             'edges': [['m/ro/z', 'a/to/u', None, {'weight': 2.0, 'delay': DS[i][0], 'spread': DS[i][1]}]]}},
                'one')
    for i in range(0, len(DS), 2):
        for order in (('rz', 'rx'), ('rx', 'rz')):
            tpls = {'M': [[o, {}] for o in order], 'Ta': [['to', {}]]}
            add({'ops': C09.OPS, 'node_tpls': tpls, 'edge_tpls': {}, 'share': True,
                 'circuit': {'name': 'net', 'nodes': {'m': 'M', 'a': 'Ta'},
                             'edges': [['m/rz/z', 'a/to/u', None, {'weight': 2.0, 'delay': DS[i][0], 'spread': DS[i][1]}]]}},
                'one')
    # Connectivity(delays, spread): one and two kernels leaving one population variable
    for s1, s2 in ((0.5, 0.7), (0.7, 0.5), (0.5, None), (0.5, 0.5), (0.35, 0.7)):
        for d2 in (1.0, 0.5):
            c2 = {'src': 'e', 'tgt': 'i', 'W': [[1.5, -0.5], [0.25, 2.0]], 'delay': d2}
            if s2:
                c2['spread'] = s2 * d2
            out.append({'pop': True, 'pops': {'e': 2, 'i': 2}, 'tag': 'connectivity_kernels', 'seed': seed, 'spec': None,
                        'conns': [{'src': 'e', 'tgt': 'e', 'W': [[0.0, 2.0], [-0.5, 0.0]], 'delay': 1.0, 'spread': s1}, c2],
                        'vectorize': True, 'solver': 'euler'})
    # Connectivity kernels together with run(dde_approx=n): a spread keeps its own order, plain delays get order n
    for nda in (2, 3):
        for (d1, s1), d2 in (((0.5, 0.2), 1.0), ((1.0, 0.5), 0.5), ((1.0, 0.70710678), 1.0)):
            out.append({'pop': True, 'pops': {'e': 2, 'i': 2}, 'tag': 'connectivity_kernels_dde_approx', 'seed': seed, 'spec': None,
                        'conns': [{'src': 'e', 'tgt': 'e', 'W': [[0.0, 2.0], [-0.5, 0.0]], 'delay': d1, 'spread': s1},
                                  {'src': 'e', 'tgt': 'i', 'W': [[1.5, -0.5], [0.25, 2.0]], 'delay': d2}],
                        'dde_approx': nda, 'vectorize': True, 'solver': 'euler'})
    # unit gain: constant source, long run
    for i in range(len(DS)):
        out.append({'spec': None, 'tag': 'gain', 'ds': list(DS[i]), 'vectorize': True, 'solver': 'euler'})
    return out


def describe(tier, seed):
    return {'rule': 'edges with (delay, spread) from a table whose (d/s)^2 hits {1, 2, 2.4->2, 2.6->3, 4} (pairs rounding to the '
                    'same and to different orders), mixed with undelayed edges, 1-3 edges sharing a source or a target, '
                    'vectorize on/off, dde_approx=n on plain delays, euler and scipy: trajectories of all user variables vs '
                    'the explicitly written chain of n = round((d/s)^2) first-order stages of rate n/d (one chain per edge); '
                    'unit steady-state gain on a constant source; non-trivial = all',
            'bounds': {'edges': 2 if tier == 'quick' else 3}}


def chain_model(spec, dde_approx=0):
    """reference: every edge with (delay, spread) is replaced by an explicit chain between source and target"""
    nodes, edges = sp.flatten(spec)
    ops = dict(spec['ops'])
    new_nodes = {k: list(v) for k, v in nodes.items()}
    new_edges = []
    for ei, (src, tgt, tpl, a) in enumerate(edges):
        a = dict(a)
        d, s = a.pop('delay', None), a.pop('spread', None)
        if d and (s or dde_approx):
            n = int(round((d / s) ** 2)) if s else dde_approx
            n = max(n, dde_approx) if s else n
            rate = n / d
            prev = src
            for k in range(1, n + 1):
                opn = f'ch{ei}_{k}'
                ops[opn] = {'eqs': ["d/dt * zz = rr*(cin - zz)"], 'vars': {'zz': 'output(0.0)', 'rr': rate, 'cin': 'input(0.0)'}}
                new_nodes[f'chain{ei}_{k}'] = [(opn, {})]
                new_edges.append((prev, f'chain{ei}_{k}/{opn}/cin', None, {'weight': 1.0}))
                prev = f'chain{ei}_{k}/{opn}/zz'
            new_edges.append((prev, tgt, tpl, a))
        else:
            if d:
                a['delay'] = d
            new_edges.append((src, tgt, tpl, a))
    return Model(ops, new_nodes, new_edges)


def run_case(case):
    from .. import build
    res = {'evals': 0, 'nontrivial': True}
    sig = {'features': [], 'tag': case['tag'], 'vectorize': case['vectorize'], 'solver': case['solver']}

    def viol(kind, **kw):
        res['viol'] = dict(kind=kind, sig=dict(sig, kind=kind), **kw)
        res['ok'] = False
        return res
    if case['tag'] == 'gain':
        return run_gain(case, res, sig, viol)
    if case.get('pop'):
        from . import C16
        return C16.run_case(case)
    spec = case['spec']
    steps = 24
    m0 = sp.refmodel(spec)
    outs = {f'o{i}': p for i, p in enumerate(m0.state_vars())}
    kw = {}
    if case.get('dde_approx'):
        kw['dde_approx'] = case['dde_approx']
    if case['solver'] == 'scipy':
        kw.update(rtol=1e-9, atol=1e-11)
    try:
        circ = build.build_py(spec)
        df = circ.run(simulation_time=steps * DT, step_size=DT, sampling_step_size=DT, outputs=dict(outs),
                      solver=case['solver'], backend='default', vectorize=case['vectorize'], verbose=False,
                      float_precision='float64', clear=True, **kw)
    except Exception as e:
        sig['exc'] = type(e).__name__
        return viol('raises', detail=f'{type(e).__name__}: {e}'[:300])
    m = chain_model(spec, case.get('dde_approx', 0))
    if case['solver'] == 'euler':
        rows = solvers.euler(m, DT, steps - 1)
        tol = 1e-9
    else:
        # fine-step Heun on the reference chain as the 'true' solution (error ~1e-7)
        fine = 64
        rows_f = solvers.heun(m, DT / fine, (steps - 1) * fine)
        rows = rows_f[::fine]
        tol = 5e-6
    res['evals'] = steps
    for k, p in outs.items():
        exp = np.array([r[p] for r in rows])
        got = np.asarray(df[k], dtype=float)
        if got.shape != exp.shape or np.max(np.abs(got - exp)) > tol * max(1.0, np.max(np.abs(exp))):
            return viol('trajectory', var=p, got=got.tolist()[:12], expected=exp.tolist()[:12])
    res['outcome'] = hashlib.sha256(np.asarray(df.values, dtype=float).round(9).tobytes()).hexdigest()[:10]
    res['ok'] = True
    return res


def run_gain(case, res, sig, viol):
    """constant source 1.5 -> the edge delivers w * 1.5 in the steady state (unit gain of the kernel)"""
    from .. import build
    d, s = case['ds']
    spec = C09.make(['r'], ['a'], [edge('r', 'a', (d, s), 0)])
    spec['ops'] = dict(spec['ops'], ro={'eqs': ["d/dt * z = 0*c"], 'vars': {'z': 'output(1.5)', 'c': 0.0}})
    spec['node_tpls']['Rr'] = [['ro', {'z': 1.5}]]
    circ = build.build_py(spec)
    df = circ.run(simulation_time=40.0, step_size=DT, sampling_step_size=1.0, outputs={'v': 'a/to/v'}, solver='euler',
                  backend='default', vectorize=case['vectorize'], verbose=False, float_precision='float64', clear=True)
    v_end = float(np.asarray(df['v'])[-1])
    res['evals'] = 1
    res['observed'] = {'v_end': v_end}
    if abs(v_end - 2.0 * 1.5) > 1e-6:
        return viol('gain', got=v_end, expected=3.0)
    res['outcome'] = 'gain'
    res['ok'] = True
    return res
