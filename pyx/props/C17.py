"""C17 - a parameter sweep equals running each parameter set on its own."""
import copy
import hashlib
import itertools

import numpy as np

LEVEL = 'exploration'
BACKENDS = ()
CHUNK = 2
DT = 0.125
STEPS = 8

CIRCUITS = ['two', 'three']   # + 'par' (parallel edges) for the pmap 'par_edge'
PMAPS = {
    'node': {'k': {'vars': ['so/k'], 'nodes': ['a']}},
    'node_multi': {'k': {'vars': ['so/k'], 'nodes': ['a', 'b']}},
    'node_vars': {'k': {'vars': ['so/k', 'to/c'], 'nodes': ['b']}},
    'edge': {'w': {'vars': ['weight'], 'edges': [['a/so/x', 'b/to/u']]}},
    'both': {'k': {'vars': ['so/k'], 'nodes': ['b']}, 'w': {'vars': ['weight'], 'edges': [['a/so/x', 'b/to/u']]}},
    'init': {'x0': {'vars': ['so/x'], 'nodes': ['a']}, 'k': {'vars': ['so/k'], 'nodes': ['a']}},
    # the second of two parallel edges between one pair of variables, addressed by its index
    'par_edge': {'w': {'vars': ['weight'], 'edges': [['a/so/x', 'b/to/u', 1]]}},
    'par_edge2': {'w': {'vars': ['weight'], 'edges': [['a/so/x', 'b/to/u', 2]]}},
    'par_edge0': {'w': {'vars': ['weight'], 'edges': [['a/so/x', 'b/to/u', 0]]}, 'k': {'vars': ['so/k'], 'nodes': ['a']}},
    'three': {'k': {'vars': ['so/k'], 'nodes': ['b']}, 'w': {'vars': ['weight'], 'edges': [['a/so/x', 'b/to/u']]},
              'x0': {'vars': ['so/x'], 'nodes': ['a']}},
}
VALUES = {'k': [0.5, 2.0, 3.5], 'w': [-1.0, 0.75, 4.0], 'x0': [0.2, 0.9, 1.4]}


EDGES = {'two': [('a/so/x', 'b/to/u', 2.0), ('b/so/x', 'a/to/u', 0.5)],
         'par': [('a/so/x', 'b/to/u', 2.0), ('a/so/x', 'b/to/u', -0.75), ('a/so/x', 'b/to/u', 0.375), ('b/so/x', 'a/to/u', 0.5)],
         'three': [('a/so/x', 'b/to/u', 2.0), ('cc/so/x', 'b/to/u', -0.25), ('b/so/x', 'cc/to/u', 1.25)]}


def build(name, node_over=None, edge_over=None):
    """the sweep template (all nodes share ONE NodeTemplate object); with node_over / edge_over: the same circuit written
    out explicitly - one node template per node that carries its values, weights given in the edge list - without any
    use of update_var (reference for a single grid row)"""
    from pyrates import OperatorTemplate, NodeTemplate, CircuitTemplate
    so = OperatorTemplate('so', equations=["d/dt * x = -k*x"], variables={'x': 'output(0.6)', 'k': 1.5})
    to = OperatorTemplate('to', equations=["d/dt * v = -c*v + u"], variables={'v': 'output(0.1)', 'u': 'input(0.0)', 'c': 1.0})
    labels = ['a', 'b'] + (['cc'] if name == 'three' else [])
    if node_over is None and edge_over is None:
        n = NodeTemplate('n', operators=[so, to])
        nodes = {l: n for l in labels}
    else:
        nodes = {}
        for l in labels:
            ov = {'so': {}, 'to': {}}
            for key, val in (node_over or {}).get(l, {}).items():
                o_, v_ = key.split('/')
                ov[o_][v_] = val
            nodes[l] = NodeTemplate(f'n_{l}', operators={so: ov['so'], to: ov['to']})
    edges, seen = [], {}
    for s_, t_, w in EDGES[name]:
        i = seen.get((s_, t_), 0)
        seen[(s_, t_)] = i + 1
        edges.append((s_, t_, None, {'weight': (edge_over or {}).get((s_, t_, i), w)}))
    return CircuitTemplate('net', nodes=nodes, edges=edges)


def cases(tier, seed):
    out = []
    for circ in CIRCUITS + ['par']:
        for pm in PMAPS:
            if (circ == 'par') != pm.startswith('par_edge'):
                continue
            keys = list(PMAPS[pm])
            grids = []
            for n in (2, 3):
                grids.append(({k: VALUES[k][:n] for k in keys}, False))
            if len(keys) == 3:
                grids.append(({keys[0]: VALUES[keys[0]][:2], keys[1]: VALUES[keys[1]][:3], keys[2]: VALUES[keys[2]][:2]}, True))
                grids.append(({keys[0]: VALUES[keys[0]][:3], keys[1]: VALUES[keys[1]][:2], keys[2]: VALUES[keys[2]][:2]}, True))
            elif len(keys) == 2:
                grids.append(({keys[0]: VALUES[keys[0]][:2], keys[1]: VALUES[keys[1]][:3]}, True))
                grids.append(({keys[0]: VALUES[keys[0]][:2], keys[1]: VALUES[keys[1]][:2]}, True))
            else:
                grids.append(({keys[0]: VALUES[keys[0]]}, True))
            for grid, permute in grids:
                for inp in (False, True):
                    for vec in (True, False):
                        for solver in ('euler',) + (('scipy',) if tier != 'quick' or (vec and not inp) else ()):
                            out.append({'circuit': circ, 'pmap': pm, 'grid': grid, 'permute': permute, 'input': inp,
                                        'vectorize': vec, 'solver': solver})
            # the grid given as a DataFrame whose index is not 0..n-1 in order (sorted / filtered sweep tables)
            for labels in ([2, 0, 1], [1, 3, 4], [3, 1, 2, 0]):
                n = len(labels)
                g = {k: [VALUES[k][(i + j) % 3] + 0.125 * (i // 3) for i in range(n)] for j, k in enumerate(keys)}
                for vec in (True, False):
                    out.append({'circuit': circ, 'pmap': pm, 'grid': g, 'permute': False, 'input': False, 'vectorize': vec,
                                'solver': 'euler', 'df_index': labels})
    return out


def describe(tier, seed):
    return {'rule': '3 circuits (one with parallel edges addressed by index) x parameter maps {node parameter, several nodes per key, several variables per key, edge '
                    'attribute, node+edge, initial value+parameter, three keys} x grids {equal-length 2 and 3, permuted 2x2 / 2x3 / 3 / 2x3x2 / 3x2x2, DataFrame grids with permuted or sparse index labels} x '
                    'inputs {none, shared array} x vectorize x solver; for every row of the returned parameter table the '
                    'block of result columns labelled with that row key must equal a separate run of a fresh template updated '
                    'with those values; non-trivial = all',
            'bounds': {'grid_rows': 6}}


def run_case(case):
    from pyrates import grid_search
    from .. import pool
    res = {'evals': 0, 'nontrivial': True}
    sig = {'features': [], 'pmap': case['pmap'], 'vectorize': case['vectorize'], 'solver': case['solver']}

    def viol(kind, **kw):
        res['viol'] = dict(kind=kind, sig=dict(sig, kind=kind), **kw)
        res['ok'] = False
        return res
    pmap = copy.deepcopy(PMAPS[case['pmap']])
    for v in pmap.values():
        if 'edges' in v:
            v['edges'] = [tuple(e) for e in v['edges']]
    # every state variable of every node is observed (a sweep must not reach nodes it does not address)
    node_labels = ['a', 'b'] + (['cc'] if case['circuit'] == 'three' else [])
    outs = {f'{v_}_{n_}': f'{n_}/{o_}/{v_}' for n_ in node_labels for o_, v_ in (('so', 'x'), ('to', 'v'))}
    inp = 0.05 * np.arange(STEPS, dtype=float) ** 2 - 0.1 if case['input'] else None
    kw = dict(step_size=DT, simulation_time=STEPS * DT, sampling_step_size=DT, solver=case['solver'],
              vectorize=case['vectorize'], verbose=False, float_precision='float64', backend='default', clear=True)
    if case['solver'] == 'scipy':
        # the extrinsic input is piecewise linear: RK45's error estimate is blind to some of its kinks, so the joint and
        # the single system only agree once the tolerance forces small steps (same observation as C08, DESIGN 8.16)
        kw.update(rtol=1e-11, atol=1e-13) if case.get('input') else kw.update(rtol=1e-8, atol=1e-10)
    pgrid = {k: list(v) for k, v in case['grid'].items()}
    if case.get('df_index'):
        import pandas as pd
        pgrid = pd.DataFrame(pgrid, index=list(case['df_index']))
        sig['features'].append('dataframe_grid_with_own_index')
    try:
        df, table = grid_search(build(case['circuit']), param_grid=pgrid,
                                param_map=pmap, outputs=dict(outs), permute_grid=case['permute'],
                                inputs={'a/to/u': inp.copy()} if inp is not None else None, **kw)
    except Exception as e:
        sig['exc'] = type(e).__name__
        return viol('raises', detail=f'{type(e).__name__}: {e}'[:300])
    # expected grid rows
    keys = list(case['grid'])
    if case['permute']:
        exp_rows = sorted(itertools.product(*[case['grid'][k] for k in keys]))
    else:
        exp_rows = sorted(zip(*[case['grid'][k] for k in keys]))
    got_rows = sorted(tuple(float(table.loc[i, k]) for k in keys) for i in table.index)
    if got_rows != [tuple(map(float, r)) for r in exp_rows]:
        return viol('grid_rows', got=got_rows, expected=exp_rows)
    res['observed'] = {'columns': [str(c) for c in df.columns][:6], 'rows': list(map(str, table.index))}
    for idx in table.index:
        params = {k: float(table.loc[idx, k]) for k in keys}
        pool.fresh_state()
        node_over, edge_over = {}, {}
        for k, val in params.items():
            pm = PMAPS[case['pmap']][k]
            if 'nodes' in pm:
                for n in pm['nodes']:
                    for v in pm['vars']:
                        node_over.setdefault(n, {})[v] = val
            else:
                for s, t, *eidx in pm['edges']:
                    edge_over[(s, t, eidx[0] if eidx else 0)] = val
        c = build(case['circuit'], node_over=node_over, edge_over=edge_over)
        kw2 = dict(kw)
        kw2.pop('simulation_time')
        kw2.pop('step_size')
        single = c.run(simulation_time=STEPS * DT, step_size=DT, outputs=dict(outs),
                       inputs={'a/to/u': inp.copy()} if inp is not None else None, **kw2)
        res['evals'] += 1
        for key in outs:
            try:
                block = df[key][idx]
            except Exception as e:
                return viol('label_missing', key=key, row=str(idx), columns=[str(c) for c in df.columns][:8])
            got = np.asarray(block, dtype=float).reshape(len(df), -1)
            if got.shape[1] != 1:
                return viol('block_shape', key=key, row=str(idx), shape=list(got.shape))
            exp = np.asarray(single[key], dtype=float)
            tol = 1e-9 if case['solver'] == 'euler' else 1e-6
            if got[:, 0].shape != exp.shape or np.max(np.abs(got[:, 0] - exp)) > tol * max(1.0, np.max(np.abs(exp))):
                return viol('block_differs_from_single_run', key=key, row=str(idx), params=params,
                            got=got[:, 0].tolist()[:6], expected=exp.tolist()[:6])
    res['outcome'] = hashlib.sha256(np.asarray(df.values, dtype=float).round(8).tobytes()).hexdigest()[:10]
    res['ok'] = True
    return res
