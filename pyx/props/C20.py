"""C20 - unsupported requests fail loudly instead of returning numbers (support matrix + single-fault mutants)."""
import copy
import hashlib
import itertools
import warnings

import numpy as np

LEVEL = 'fault_enumeration'
BACKENDS = ('torch', 'jax', 'fortran')
X64 = True
CHUNK = 2
CASE_BUDGET = 300
DT = 0.125

# what the backends document as supported (property text): everything else must raise
SOLVERS = {'default': ('euler', 'heun', 'scipy'), 'torch': ('euler', 'scipy'), 'jax': ('euler', 'heun', 'scipy', 'diffrax'),
           'fortran': ('euler', 'heun', 'scipy')}
ALL_SOLVERS = ('euler', 'heun', 'scipy', 'diffrax', 'rk4')
EDGE_DELAY_BUFFER = {'default': True, 'torch': True, 'jax': False, 'fortran': True}
SPARSE_JAC = {'default': True, 'torch': True, 'jax': False, 'fortran': True}


def base_model(delay='none', names=None, extra=None):
    """two nodes, one edge; `delay` in none / discrete / gamma / past"""
    from pyrates import OperatorTemplate, NodeTemplate, CircuitTemplate
    so_eq = ["d/dt * x = -k*x"] if delay != 'past' else ["d/dt * x = -k*past(x, 0.5)"]
    so = OperatorTemplate('so', equations=so_eq, variables={'x': 'output(0.6)', 'k': 1.5})
    to = OperatorTemplate('to', equations=["d/dt * v = -v + u"], variables={'v': 'output(0.1)', 'u': 'input(0.0)'})
    attrs = {'weight': 2.0}
    if delay == 'discrete':
        attrs['delay'] = 3 * DT
    elif delay == 'gamma':
        attrs.update(delay=1.0, spread=0.5)
    if delay == 'matrix_discrete':
        # the same delay given through a population Connectivity (matrix edge)
        from pyrates.frontend.template.population import PopulationTemplate, Connectivity
        pa = PopulationTemplate('a', NodeTemplate('a', operators=[so]), n=2, params={'so/x': [0.6, 0.4]})
        pb = PopulationTemplate('b', NodeTemplate('b', operators=[to]), n=2)
        return CircuitTemplate('net', populations={'a': pa, 'b': pb},
                               connections=[Connectivity('a/so/x', 'b/to/u', np.array([[2.0, 0.0], [0.5, 1.0]]), delays=3 * DT)])
    return CircuitTemplate('net', nodes={'a': NodeTemplate('a', operators=[so]), 'b': NodeTemplate('b', operators=[to])},
                           edges=[('a/so/x', 'b/to/u', None, attrs)])


def matrix_cases(tier):
    out = []
    for backend in SOLVERS:
        for solver in ALL_SOLVERS:
            for vec in (False, True):
                for delay in ('none', 'discrete', 'gamma', 'past', 'matrix_discrete'):
                    if delay == 'matrix_discrete' and not vec:
                        continue
                    out.append({'kind': 'run', 'backend': backend, 'solver': solver, 'vectorize': vec, 'delay': delay})
        # spellings that are not in any supported list (the lists are lower-case)
        for solver in ('Euler', 'HEUN', 'Scipy', 'Diffrax', 'euler '):
            for vec in ((False,) if backend == 'fortran' else (False, True)):
                out.append({'kind': 'run', 'backend': backend, 'solver': solver, 'vectorize': vec, 'delay': 'none'})
        for vec in (False, True):
            for delay in ('none', 'discrete', 'past') + (('matrix_discrete',) if vec else ()):
                out.append({'kind': 'grf', 'backend': backend, 'solver': 'euler', 'vectorize': vec, 'delay': delay})
            for sparse in (False, True):
                out.append({'kind': 'jac', 'backend': backend, 'solver': 'euler', 'vectorize': vec, 'delay': 'none', 'sparse': sparse})
    if tier == 'quick':
        # the Fortran part of the matrix costs one f2py build per supported cell: keep a slice
        out = [c for c in out if c['backend'] != 'fortran' or c['vectorize'] or c['solver'] in ('rk4', 'diffrax', 'Euler', 'Scipy')
               or (c['delay'] == 'none' and c['solver'] == 'euler' and c['kind'] == 'run')]
    return out


FAULTS = []


def fault(f):
    FAULTS.append(f.__name__)
    return f


def fault_cases(tier):
    out = []
    ops = {'so': ['x', 'k'], 'to': ['v', 'u']}
    for op, vs in ops.items():
        for v in vs:
            out.append({'kind': 'fault', 'fault': 'undeclared_variable', 'op': op, 'var': v})
    for end in ('source', 'target'):
        for part in (0, 1, 2):
            out.append({'kind': 'fault', 'fault': 'edge_path', 'end': end, 'part': part})
            out.append({'kind': 'fault', 'fault': 'edge_path_hier', 'end': end, 'part': part})
    for part in (0, 1, 2):
        for form in ('dict', 'list'):
            out.append({'kind': 'fault', 'fault': 'output_path', 'part': part, 'form': form})
        out.append({'kind': 'fault', 'fault': 'input_path', 'part': part})
        out.append({'kind': 'fault', 'fault': 'update_var_path', 'part': part})
        out.append({'kind': 'fault', 'fault': 'node_values_path', 'part': part})
    for name in ('y', 'dy', 'source_idx', 'target_idx', 'pi', 'I', 'E', 'S', 'Q', 'O', 'N', 'oo', 'zoo', 'nan', 'beta', 'gamma',
                 'exp', 'log', 'sin', 'cos', 'tan', 'sqrt', 'abs', 'x_buffer', 'x_delays', 'q_maxdelay', 'q_idx', 'x_hist'):
        out.append({'kind': 'fault', 'fault': 'reserved_name', 'name': name})
    # a misspelt variable in the operator overrides of a node template / in node_values, on the first, second and
    # third node that uses the operator; a variable that only ANOTHER operator declares
    for pos in (0, 1, 2):
        for via in ('node_template', 'node_values'):
            for vec in (False, True):
                out.append({'kind': 'fault', 'fault': 'override_typo', 'pos': pos, 'via': via, 'vectorize': vec})
    # several node_values entries of which one addresses a node that does not exist, at every position
    for pos in (0, 1, 2):
        for hier in (False, True):
            out.append({'kind': 'fault', 'fault': 'node_values_several', 'pos': pos, 'hier': hier})
    for where in ('other_node', 'same_node', 'other_node_declared_first'):
        out.append({'kind': 'fault', 'fault': 'foreign_variable', 'where': where})
    out.append({'kind': 'fault', 'fault': 'two_outputs'})
    out.append({'kind': 'fault', 'fault': 'operator_cycle'})
    out.append({'kind': 'fault', 'fault': 'edge_template_two_outputs'})
    return out


def cases(tier, seed):
    return matrix_cases(tier) + fault_cases(tier)


def describe(tier, seed):
    return {'rule': 'support matrix backend{default,torch,jax,fortran} x solver{euler,heun,scipy,diffrax,rk4; other spellings Euler/HEUN/Scipy/Diffrax/euler+blank} x vectorize x delay '
                    'kind{none,discrete,gamma,past()} through run, plus get_run_func and get_jacobian_func(sparse on/off): every '
                    'cell that the documented support table excludes must raise before a function/result is returned (a cell '
                    'that returns numbers is tolerated only if they equal the default backend\'s); single-fault mutants of a '
                    'base model: each declared variable removed, each path component of each edge / output / input / '
                    'update_var / node_values key misspelt (flat and hierarchical), a misspelt operator override on the 1st / 2nd / 3rd node that uses the operator (node template and node_values), a variable only another operator declares, every reserved name, second output, '
                    'cyclic operator graph; inputs and update_var to a missing variable must at least warn; '
                    'non-trivial = cells/mutants that are expected to be refused',
            'bounds': {'faults_per_mutant': 1}}


def expected_unsupported(c):
    reasons = []
    if c['kind'] == 'run' and c['solver'] not in SOLVERS[c['backend']]:
        reasons.append('solver')
    if c['backend'] == 'fortran' and c['vectorize']:
        reasons.append('fortran_vectorize')
    if c['delay'] in ('discrete', 'matrix_discrete') and c['solver'] in ('euler', 'heun') and not EDGE_DELAY_BUFFER[c['backend']]:
        reasons.append('edge_delay_buffer')
    if c['kind'] == 'jac' and c.get('sparse') and not SPARSE_JAC[c['backend']]:
        reasons.append('sparse_jacobian')
    return reasons


def run_case(case):
    res = {'evals': 1}
    if case['kind'] == 'fault':
        return run_fault(case, res)
    reasons = expected_unsupported(case)
    res['nontrivial'] = bool(reasons)
    sig = {'features': reasons, 'kind_case': case['kind'], 'backend': case['backend'], 'solver': case['solver']}
    kw = dict(step_size=DT, backend=case['backend'], vectorize=case['vectorize'], verbose=False, float_precision='float64')
    if case['backend'] == 'fortran':
        kw['file_name'] = f"c20_{abs(hash(str(sorted(case.items())))) % 10 ** 9}"
    raised = None
    result = None
    try:
        c = base_model(case['delay'])
        if case['kind'] == 'run':
            result = c.run(simulation_time=6 * DT, sampling_step_size=DT, outputs={'v': 'b/to/v'}, solver=case['solver'],
                           clear=True, **kw)
        elif case['kind'] == 'grf':
            result = c.get_run_func('vf', solver=case['solver'], clear=True, **kw)
        else:
            result = c.get_jacobian_func('jf', sparse=case['sparse'], clear=True, **kw)
    except Exception as e:
        raised = f'{type(e).__name__}: {e}'[:200]
    res['observed'] = {'raised': raised, 'expected_unsupported': reasons}
    res['outcome'] = ('refused' if raised else 'served') + ('_unsupported' if reasons else '_supported')
    if reasons and raised is None:
        # returned something although the cell is not supported: tolerated only if it equals the default backend's result
        ok = False
        if case['kind'] == 'run' and 'solver' in reasons and len(reasons) == 1 and case['solver'] in SOLVERS['default']:
            from .. import pool
            pool.fresh_state()
            ref = base_model(case['delay']).run(simulation_time=6 * DT, step_size=DT, sampling_step_size=DT,
                                                outputs={'v': 'b/to/v'}, solver=case['solver'], clear=True,
                                                backend='default', vectorize=case['vectorize'], verbose=False,
                                                float_precision='float64')
            ok = np.allclose(np.asarray(result, dtype=float), np.asarray(ref, dtype=float), rtol=1e-6, atol=1e-9)
        if not ok:
            res['viol'] = {'kind': 'unsupported_request_served', 'reasons': reasons, 'sig': dict(sig, kind='unsupported_request_served')}
            res['ok'] = False
            return res
    res['ok'] = True
    return res


def misspell(path, part):
    parts = path.split('/')
    parts[len(parts) - 3 + part] = parts[len(parts) - 3 + part] + 'q'
    return '/'.join(parts)


def run_fault(case, res):
    from pyrates import OperatorTemplate, NodeTemplate, EdgeTemplate, CircuitTemplate
    from pyrates.ir.circuit import PyRatesWarning
    res['nontrivial'] = True
    f = case['fault']
    sig = {'features': [f], 'kind_case': 'fault'}
    kw = dict(step_size=DT, backend='default', vectorize=True, verbose=False, float_precision='float64')
    need = 'raise'
    raised, warned, result = None, [], None

    def mk(so_vars=None, to_vars=None, so_eq=None, to_eq=None, edges=None, hier=False, extra_ops=None):
        so = OperatorTemplate('so', equations=so_eq or ["d/dt * x = -k*x"], variables=so_vars or {'x': 'output(0.6)', 'k': 1.5})
        to = OperatorTemplate('to', equations=to_eq or ["d/dt * v = -v + u"], variables=to_vars or {'v': 'output(0.1)', 'u': 'input(0.0)'})
        na = NodeTemplate('a', operators=[so] + (extra_ops or []))
        nb = NodeTemplate('b', operators=[to])
        if hier:
            sub1 = CircuitTemplate('s1', nodes={'a': na})
            sub2 = CircuitTemplate('s2', nodes={'b': nb})
            return CircuitTemplate('top', circuits={'c1': sub1, 'c2': sub2},
                                   edges=edges if edges is not None else [('c1/a/so/x', 'c2/b/to/u', None, {'weight': 2.0})])
        return CircuitTemplate('net', nodes={'a': na, 'b': nb},
                               edges=edges if edges is not None else [('a/so/x', 'b/to/u', None, {'weight': 2.0})])
    run_kw = dict(simulation_time=4 * DT, sampling_step_size=DT, outputs={'v': 'b/to/v'}, solver='euler', clear=True, **kw)
    with warnings.catch_warnings(record=True) as wlist:
        warnings.simplefilter('always')
        try:
            if f == 'undeclared_variable':
                vs = {'so': {'x': 'output(0.6)', 'k': 1.5}, 'to': {'v': 'output(0.1)', 'u': 'input(0.0)'}}
                del vs[case['op']][case['var']]
                if case['op'] == 'so' and case['var'] == 'x':
                    vs['so']['zq'] = 'output(0.0)'
                result = mk(so_vars=vs['so'], to_vars=vs['to'],
                            edges=[('a/so/x', 'b/to/u', None, {'weight': 2.0})] if (case['op'], case['var']) not in (('so', 'x'), ('to', 'u')) else []
                            ).run(**run_kw)
            elif f in ('edge_path', 'edge_path_hier'):
                hier = f.endswith('hier')
                s, t = ('c1/a/so/x', 'c2/b/to/u') if hier else ('a/so/x', 'b/to/u')
                if case['end'] == 'source':
                    s = misspell(s, case['part'])
                else:
                    t = misspell(t, case['part'])
                rk = dict(run_kw)
                if hier:
                    rk['outputs'] = {'v': 'c2/b/to/v'}
                result = mk(edges=[(s, t, None, {'weight': 2.0})], hier=hier).run(**rk)
            elif f == 'output_path':
                p = misspell('b/to/v', case['part'])
                rk = dict(run_kw)
                rk['outputs'] = {'v': p} if case['form'] == 'dict' else [p]
                result = mk().run(**rk)
                if result is not None and np.asarray(result).size == 0:
                    raised = 'empty result'   # nothing returned for the misspelt output: not numbers
            elif f == 'input_path':
                need = 'warn'
                result = mk().run(inputs={misspell('b/to/u', case['part']): np.ones(4)}, **run_kw)
            elif f == 'update_var_path':
                need = 'warn'
                c = mk()
                c.update_var(node_vars={misspell('a/so/k', case['part']): 9.0})
                result = c.run(**run_kw)
            elif f == 'node_values_path':
                c = mk()
                c.apply(node_values={misspell('a/so/k', case['part']): 9.0}, vectorize=True, verbose=False, backend='default',
                        step_size=DT, adaptive_steps=False)
                result = 'applied'
            elif f == 'reserved_name':
                n = case['name']
                result = mk(so_vars={'x': 'output(0.6)', 'k': 1.5, n: 0.5}, so_eq=[f"d/dt * x = -k*x + 0*{n}" if n not in ('exp', 'log', 'sin', 'cos', 'tan', 'sqrt', 'abs') else "d/dt * x = -k*x"]).run(**run_kw)
            elif f == 'override_typo':
                so = OperatorTemplate('so', equations=["d/dt * x = -k*x"], variables={'x': 'output(0.6)', 'k': 1.5})
                labels = ['n0', 'n1', 'n2']
                tpls = {}
                for i, l in enumerate(labels):
                    ov = {'k': 2.0 + i}
                    if case['via'] == 'node_template' and i == case['pos']:
                        ov['kk'] = 5.0
                    tpls[l] = NodeTemplate(l, operators={so: ov})
                c = CircuitTemplate('net', nodes=tpls)
                rk = dict(run_kw, outputs={'v': 'n0/so/x'}, vectorize=case['vectorize'])
                if case['via'] == 'node_values':
                    rk['node_values'] = {f"n{case['pos']}/so/kk": 5.0}
                result = c.run(**rk)
            elif f == 'node_values_several':
                hier = case['hier']
                good = ['c1/a/so/k', 'c1/a/so/x'] if hier else ['a/so/k', 'a/so/x']
                bad = 'c1/zz/so/k' if hier else 'zz/so/k'
                entries = [(good[0], 5.0), (good[1], 0.4)]
                entries.insert(case['pos'], (bad, 7.0))
                rk = dict(run_kw)
                if hier:
                    rk['outputs'] = {'v': 'c2/b/to/v'}
                result = mk(hier=hier).run(node_values=dict(entries), **rk)
            elif f == 'foreign_variable':
                so = OperatorTemplate('so', equations=["d/dt * x = -k*x"], variables={'x': 'output(0.6)', 'k': 1.5})
                to = OperatorTemplate('to', equations=["d/dt * v = -k*v + u"], variables={'v': 'output(0.1)', 'u': 'input(0.0)'})
                if case['where'] == 'same_node':
                    nodes = {'a': NodeTemplate('a', operators=[so, to])}
                    edges = []
                elif case['where'] == 'other_node':
                    nodes = {'a': NodeTemplate('a', operators=[so]), 'b': NodeTemplate('b', operators=[to])}
                    edges = [('a/so/x', 'b/to/u', None, {'weight': 2.0})]
                else:
                    nodes = {'b': NodeTemplate('b', operators=[to]), 'a': NodeTemplate('a', operators=[so])}
                    edges = [('a/so/x', 'b/to/u', None, {'weight': 2.0})]
                result = CircuitTemplate('net', nodes=nodes, edges=edges).run(
                    **dict(run_kw, outputs={'v': 'a/to/v' if case['where'] == 'same_node' else 'b/to/v'}))
            elif f == 'two_outputs':
                result = mk(so_vars={'x': 'output(0.6)', 'k': 'output(1.5)'}).run(**run_kw)
            elif f == 'operator_cycle':
                o1 = OperatorTemplate('o1', equations=["w = 2*u"], variables={'w': 'output(0.0)', 'u': 'input(0.0)'})
                o2 = OperatorTemplate('o2', equations=["u = 0.5*w"], variables={'u': 'output(0.0)', 'w': 'input(0.0)'})
                result = mk(extra_ops=[o1, o2]).run(**run_kw)
            elif f == 'edge_template_two_outputs':
                e1 = OperatorTemplate('e1', equations=["eo = 2*ei"], variables={'eo': 'output(0.0)', 'ei': 'input(0.0)'})
                e2 = OperatorTemplate('e2', equations=["eo2 = 3*ei2"], variables={'eo2': 'output(0.0)', 'ei2': 'input(0.0)'})
                et = EdgeTemplate('E', operators=[e1, e2])
                result = mk(edges=[('a/so/x', 'b/to/u', et, {'weight': 2.0})]).run(**run_kw)
        except Exception as e:
            raised = f'{type(e).__name__}: {e}'[:200]
        warned = [str(w.message)[:120] for w in wlist if issubclass(w.category, (PyRatesWarning, UserWarning))
                  and 'pyrates' in (w.filename or '')]
    res['observed'] = {'raised': raised, 'warned': warned[:3], 'need': need}
    res['outcome'] = f"{f}:{'raised' if raised else ('warned' if warned else 'silent')}"
    bad = (need == 'raise' and not raised) or (need == 'warn' and not raised and not warned)
    if bad:
        res['viol'] = {'kind': 'silent_acceptance', 'fault': case, 'sig': dict(sig, kind='silent_acceptance'),
                       'result': str(result)[:200]}
        res['ok'] = False
        return res
    res['ok'] = True
    return res
