"""C18 - auto-07p export addresses every parameter and state consistently (static parse + behaviour through f2py)."""
import ast
import hashlib
import importlib
import os
import re
import sys

import numpy as np

from ..refsem import Model

LEVEL = 'exploration'
BACKENDS = ('fortran',)
CHUNK = 1
CASE_BUDGET = 400
RESERVED = (11, 12, 13, 14)


def perm(order, P):
    idx = list(range(P))
    if order == 'reverse':
        return idx[::-1]
    if order == 'rotate':
        k = max(1, P // 3)
        return idx[k:] + idx[:k]
    return idx


def make_op(P, n, order, sdecl='identity', long_rhs=False):
    """parameters p1..pP declared in this order; first use in the equations follows `order`; the state variables are
    declared in equation order or (sdecl='reverse') against it"""
    use = perm(order, P)
    terms = [[] for _ in range(n)]
    for q, j in enumerate(use):
        eq = q % n
        s = f'x{(j % n) + 1}'
        terms[eq].append(f'{round(1 + 0.1 * (j + 1), 2)}*p{j + 1}*{s}')
    eqs = []
    for i in range(n):
        rhs = f'-x{i + 1}' + ''.join(f' + {t}' for t in terms[i])
        if long_rhs:
            # powers spread over a long line, and a literal that the code printer writes in exponent notation
            rhs += ''.join(f' - {round(0.01 * (q + 1), 3)}*x{(q % n) + 1}^{2 + q % 3}*p{(q % P) + 1}^2' for q in range(6))
            rhs += ' + 0.00002*x1^2 - 2.5e-7*x1'
        eqs.append(f"x{i + 1}' = {rhs}")
    variables = {}
    for i in (range(n) if sdecl == 'identity' else reversed(range(n))):
        variables[f'x{i + 1}'] = f"{'output' if i == 0 else 'variable'}({round(0.3 + 0.25 * i, 2)})"
    for j in range(P):
        variables[f'p{j + 1}'] = round(0.5 + 0.125 * j, 4)
    return {'eqs': eqs, 'vars': variables}


def cases(tier, seed):
    out = []
    Ps = (1, 4, 9, 10, 11, 14, 16)
    if tier == 'quick':
        for P in Ps:
            for order in ('identity', 'reverse'):
                out.append({'P': P, 'n': 2 if P > 1 else 1, 'order': order, 'scen': ['ivp'], 'over': {}})
        out.append({'P': 11, 'n': 3, 'order': 'rotate', 'scen': ['eq', 'lc'], 'over': {'NMX': 123}})
        out.append({'P': 16, 'n': 3, 'order': 'rotate', 'scen': ['ivp', 'eq', 'lc', 'bvp'], 'over': {'DS': 0.005, 'NPR': 7}})
        out.append({'P': 4, 'n': 3, 'order': 'rotate', 'scen': ['ivp', 'eq'], 'over': {}, 'sdecl': 'reverse'})
        # overrides of constants that the export otherwise chooses itself
        out.append({'P': 4, 'n': 2, 'order': 'reverse', 'scen': ['ivp', 'eq', 'lc'],
                    'over': {'JAC': 0, 'ILP': 0, 'DSMAX': 0.05, 'NTST': 33, 'IPS': 1}})
        out.append({'P': 11, 'n': 2, 'order': 'reverse', 'scen': ['ivp'], 'over': {}, 'sdecl': 'reverse'})
        # every c.* file is the same whatever was exported before it: other scenario order, another model before
        out.append({'P': 4, 'n': 2, 'order': 'identity', 'scen': ['lc', 'eq', 'ivp'], 'over': {}, 'cmp_single': True})
        out.append({'P': 4, 'n': 2, 'order': 'identity', 'scen': ['ivp', 'eq'], 'over': {}, 'cmp_single': True,
                    'after_other': True})
    else:
        for P in Ps:
            for order in ('identity', 'reverse', 'rotate'):
                for n in (1, 2, 3):
                    for scen, over in ((['ivp'], {}), (['eq', 'lc'], {'NMX': 123}), (['ivp', 'eq', 'lc', 'bvp'], {'DS': 0.005}),
                                       (['eq', 'lc'], {'JAC': 0, 'ILP': 0, 'DSMAX': 0.05, 'NTST': 33})):
                        if (n == 1 or order == 'identity') and scen != ['ivp']:
                            continue
                        out.append({'P': P, 'n': n, 'order': order, 'scen': scen, 'over': over})
                        if n > 1 and order != 'identity' and P in (4, 11):
                            out.append({'P': P, 'n': n, 'order': order, 'scen': scen, 'over': over, 'sdecl': 'reverse'})
        import itertools
        for so in itertools.permutations(['ivp', 'eq', 'lc']):
            out.append({'P': 4, 'n': 2, 'order': 'identity', 'scen': list(so), 'over': {}, 'cmp_single': True})
            out.append({'P': 4, 'n': 2, 'order': 'identity', 'scen': list(so), 'over': {'NMX': 55}, 'cmp_single': True,
                        'after_other': True})
    # boundary-value residual DSL (boundary_conditions / integral_constraints): par_<name> tokens address the PAR slot of
    # <name>, also behind the reserved range and for a parameter that only a constraint uses
    for P in ((4, 12) if tier == 'quick' else (4, 10, 11, 12, 16)):
        for order in (('reverse',) if tier == 'quick' else ('identity', 'reverse', 'rotate')):
            out.append({'bvp_dsl': True, 'P': P, 'n': 3, 'order': order})
    # a long polynomial right-hand side with powers (Fortran line continuation next to `**`) and a literal < 1e-4
    out.append({'long_rhs': True, 'P': 11, 'n': 2, 'order': 'identity', 'scen': ['ivp'], 'over': {}})
    out.append({'pure_indices': True})
    return out


def describe(tier, seed):
    return {'rule': 'scalar models with P in {1,4,9,10,11,14,16} parameters (crossing the reserved PAR range), declaration order '
                    'vs order of first use permuted (identity, reverse, rotate), 1-3 state variables declared in or against '
                    'equation order, scenario selections (in several orders; each c.* file must equal the one of a '
                    'single-scenario export, also after an unrelated export with other overrides) and constant overrides: the generated .f90 and every c.* file are parsed (slots distinct, none in 11-14, '
                    'declaration order, parnames/unames/STPNT/forwarding call/DFDP columns use one slot per parameter, '
                    'NDIM/NPAR) and the f2py-wrapped stpnt/func are called (declared values in the named slots, vector field '
                    'equals the reference at probe points, perturbing args(slot(p)) acts like perturbing p, dfdu/dfdp equal '
                    'central differences); boundary-value residuals written with the par_<name> DSL called through f2py; a long '
                    'polynomial right-hand side with powers and small literals; plus _auto_param_indices for every n <= 64; non-trivial = all',
            'bounds': {'parameters': 16, 'state_vars': 3}}


def run_case(case):
    res = {'evals': 0, 'nontrivial': True}
    sig = {'features': [], 'P': case.get('P'), 'order': case.get('order')}

    def viol(kind, **kw):
        res['viol'] = dict(kind=kind, sig=dict(sig, kind=kind), **kw)
        res['ok'] = False
        return res
    if case.get('pure_indices'):
        return pure_indices(res, viol)
    if case.get('bvp_dsl'):
        return run_bvp_dsl(case, res, sig, viol)
    from pyrates import OperatorTemplate, NodeTemplate, CircuitTemplate
    import copy
    P, n = case['P'], case['n']
    op = make_op(P, n, case['order'], case.get('sdecl', 'identity'), long_rhs=bool(case.get('long_rhs')))
    if case.get('after_other'):
        # an unrelated export with its own scenarios and overrides happened before in this process
        try:
            oo = OperatorTemplate('bop', equations=["q1' = -q1 + g1*q2", "q2' = -g2*q2 + g3"],
                                  variables={'q1': 'output(0.2)', 'q2': 'variable(0.4)', 'g1': 0.5, 'g2': 1.5, 'g3': 0.25})
            CircuitTemplate('bn', nodes={'p': NodeTemplate('bn', operators=[oo])}).get_run_func(
                'vfb', step_size=1e-3, file_name='a18_other', backend='fortran', float_precision='float64', auto=True,
                vectorize=False, solver='scipy', verbose=False, auto_constants=('ivp', 'eq', 'lc'), NMX=123, NPR=7, IID=3)
        except Exception as e:
            sig['exc'] = type(e).__name__
            return viol('raises', detail=f'other export: {type(e).__name__}: {e}'[:300])
    fname = f"a18_{abs(hash(str(sorted((k, str(v)) for k, v in case.items())))) % 10 ** 9}"
    try:
        o = OperatorTemplate('aop', equations=list(op['eqs']), variables=copy.deepcopy(op['vars']))
        c = CircuitTemplate('an', nodes={'p': NodeTemplate('pn', operators=[o])})
        kw = dict(auto_constants=tuple(case['scen']))
        kw.update(case['over'])
        f, a, names, svm = c.get_run_func('vfx', step_size=1e-3, file_name=fname, backend='fortran', float_precision='float64',
                                          auto=True, vectorize=False, solver='scipy', verbose=False, **kw)
    except Exception as e:
        sig['exc'] = type(e).__name__
        return viol('raises', detail=f'{type(e).__name__}: {e}'[:300])
    src = open(f'{fname}.f90').read()
    src_u = re.sub(r'&\s*\n\s*&?', '', src)
    pnames = [f'p{j + 1}' for j in range(P)]
    # ---- static: c.* files
    slots = None
    for scen in case['scen']:
        if not os.path.exists(f'c.{scen}'):
            return viol('missing_constants_file', scen=scen)
        txt = open(f'c.{scen}').read()
        consts = {}
        for line in txt.splitlines():
            if '=' in line:
                k, v = line.split('=', 1)
                try:
                    consts[k.strip()] = ast.literal_eval(v.strip())
                except Exception:
                    consts[k.strip()] = v.strip()
        par = consts.get('parnames', {})
        un = consts.get('unames', {})
        inv = {v: k for k, v in par.items()}
        if sorted(inv) != sorted(pnames) or len(par) != P:
            return viol('parnames', scen=scen, got=par)
        s_ = [inv[p] for p in pnames]
        if len(set(s_)) != P or any(x in RESERVED for x in s_) or s_ != sorted(s_):
            return viol('slots', scen=scen, slots=s_)
        if slots is not None and s_ != slots:
            return viol('slots_differ_between_files', a=slots, b=s_)
        slots = s_
        if un != {int(svm[f'p/aop/x{i + 1}']) + 1: f'x{i + 1}' for i in range(n)}:
            return viol('unames', got=un, state_var_map=str(svm))
        if consts.get('NDIM') != n or consts.get('NPAR', 0) < max(slots):
            return viol('ndim_npar', ndim=consts.get('NDIM'), npar=consts.get('NPAR'), max_slot=max(slots))
        for k, v in case['over'].items():
            if consts.get(k) != v:
                return viol('constant_override', key=k, got=consts.get(k), expected=v)
    slot = dict(zip(pnames, slots))
    if case.get('cmp_single'):
        multi = {scen: open(f'c.{scen}').read() for scen in case['scen']}
        from .. import pool
        for scen in case['scen']:
            pool.fresh_state()
            try:
                o1 = OperatorTemplate('aop', equations=list(op['eqs']), variables=copy.deepcopy(op['vars']))
                c1 = CircuitTemplate('an', nodes={'p': NodeTemplate('pn', operators=[o1])})
                c1.get_run_func('vfx', step_size=1e-3, file_name=fname, backend='fortran', float_precision='float64',
                                auto=True, vectorize=False, solver='scipy', verbose=False, auto_constants=(scen,),
                                **case['over'])
            except Exception as e:
                sig['exc'] = type(e).__name__
                return viol('raises', detail=f'single export {scen}: {type(e).__name__}: {e}'[:300])
            single = open(f'c.{scen}').read()
            res['evals'] += 1
            if single != multi[scen]:
                d = [(a_, b_) for a_, b_ in zip(multi[scen].splitlines(), single.splitlines()) if a_ != b_]
                sig['features'].append('constants_depend_on_earlier_exports')
                return viol('constants_file_depends_on_history', scen=scen, diff=d[:8])
    # ---- static: subroutine signature, forwarding call, stpnt
    m = re.search(r'subroutine vfx\(([^)]+)\)', src_u)
    sig_args = [x.strip() for x in m.group(1).split(',')] if m else []
    if sig_args != ['t', 'y', 'dy'] + pnames:
        return viol('signature_order', got=sig_args)
    start = src_u.find('call vfx(')
    depth, end = 0, None
    for i in range(start + len('call vfx'), len(src_u)):
        if src_u[i] == '(':
            depth += 1
        elif src_u[i] == ')':
            depth -= 1
            if depth == 0:
                end = i
                break
    call_args = [x.strip() for x in re.split(r',\s*(?![^()]*\))', src_u[start + len('call vfx('):end])]
    fwd = [int(re.match(r'args\((\d+)\)', x).group(1)) for x in call_args[3:]]
    if fwd != slots:
        return viol('forwarding_call', got=fwd, expected=slots)
    st = dict((int(a_), (float(v.lower().replace('d', 'e')), nm)) for a_, v, nm in re.findall(r'args\((\d+)\)\s*=\s*([-0-9.eEdD+]+)\s*!\s*(\w+)', src_u))
    for p in pnames:
        if slot[p] not in st or st[slot[p]][1] != p or abs(st[slot[p]][0] - op['vars'][p]) > 1e-12:
            return viol('stpnt_source', param=p, slot=slot[p], got=st.get(slot[p]))
    dfdp_cols = sorted({int(c_) for _, c_ in re.findall(r'dfdp\((\d+),(\d+)\)\s*=', src_u)})
    if not set(dfdp_cols) <= set(slots):
        return viol('dfdp_columns', got=dfdp_cols, slots=slots)
    # ---- behaviour through f2py
    if os.getcwd() not in sys.path:
        sys.path.insert(0, os.getcwd())
    try:
        mod = importlib.import_module(fname)
    except Exception as e:
        return viol('module_import', detail=str(e)[:200])
    npar = max(max(slots), 16) + 4
    y = np.zeros(n)
    args = np.zeros(npar)
    mod.stpnt(y, args, 0.0)
    for p in pnames:
        if abs(args[slot[p] - 1] - op['vars'][p]) > 1e-12:
            return viol('stpnt_value', param=p, slot=slot[p], got=float(args[slot[p] - 1]))
    others = [i for i in range(npar) if (i + 1) not in slots]
    if any(abs(args[i]) > 0 for i in others):
        return viol('stpnt_writes_foreign_slot', slots=[i + 1 for i in others if args[i] != 0])
    mref = Model({'aop': op}, {'p': [('aop', {})]}, [])
    spos = [int(svm[f'p/aop/x{i + 1}']) for i in range(n)]
    if sorted(spos) != list(range(n)):
        return viol('state_var_map', got=str(svm))
    for i in range(n):
        if abs(y[spos[i]] - mref.init[f'p/aop/x{i + 1}']) > 1e-12:
            return viol('stpnt_state', i=i, got=y.tolist(), state_var_map=str(svm))
    icp = np.array([1], dtype=np.int32)

    def F(yv, av, ijac=0):
        dfdu = np.zeros((n, n), order='F')
        dfdp = np.zeros((n, npar), order='F')
        dy = mod.func(np.asarray(yv, dtype=float), icp, np.asarray(av, dtype=float), ijac, dfdu, dfdp)
        return np.array(dy), dfdu, dfdp
    rng_y = [y.copy(), y + 0.37 * (1 + np.arange(n)), y - 0.21 * (1 + np.arange(n)) ** 2]
    for yv in rng_y:
        for dev in [None] + pnames:
            av = args.copy()
            Pd = {}
            if dev:
                av[slot[dev] - 1] += 0.61
                Pd[f'p/aop/{dev}'] = op['vars'][dev] + 0.61
            dy, _, _ = F(yv, av)
            exp, _ = mref.field({f'p/aop/x{i + 1}': yv[spos[i]] for i in range(n)}, Pd)
            res['evals'] += 1
            for i in range(n):
                e = exp[f'p/aop/x{i + 1}']
                if abs(dy[spos[i]] - e) > 1e-9 * max(1.0, abs(e)):
                    return viol('func_value', deviated=dev, i=i, got=float(dy[i]), expected=float(e))
    # dfdu / dfdp against central differences of func itself
    yv = rng_y[1]
    dy0, dfdu, dfdp = F(yv, args, ijac=2)
    h = 1e-6
    for j in range(n):
        e = np.zeros(n)
        e[j] = h
        fd = (F(yv + e, args)[0] - F(yv - e, args)[0]) / (2 * h)
        if np.max(np.abs(dfdu[:, j] - fd)) > 1e-6 * max(1.0, np.max(np.abs(fd))):
            return viol('dfdu', col=j, got=dfdu[:, j].tolist(), expected=fd.tolist())
    for s_ in range(1, npar + 1):
        av1, av2 = args.copy(), args.copy()
        av1[s_ - 1] += h
        av2[s_ - 1] -= h
        fd = (F(yv, av1)[0] - F(yv, av2)[0]) / (2 * h)
        if s_ == 14:
            continue   # PAR(14) carries the time argument
        if np.max(np.abs(dfdp[:, s_ - 1] - fd)) > 1e-6 * max(1.0, np.max(np.abs(fd))):
            return viol('dfdp', slot=s_, got=dfdp[:, s_ - 1].tolist(), expected=fd.tolist())
    res['outcome'] = hashlib.sha256(str(slots).encode()).hexdigest()[:8]
    res['ok'] = True
    return res


def pure_indices(res, viol):
    """_auto_param_indices for every n <= 64: distinct, increasing, none reserved, dense outside the blocked range"""
    from pyrates.backend.fortran.fortran_backend import FortranBackend
    be = FortranBackend.__new__(FortranBackend)
    blocked = FortranBackend._AUTO_BLOCKED_PAR_RANGE
    for nn in range(0, 65):
        idx = be._auto_param_indices(tuple(f'a{i}' for i in range(nn)), blocked)
        res['evals'] += 1
        if len(idx) != nn or len(set(idx)) != nn or idx != sorted(idx) or any(i in RESERVED for i in idx) or (idx and idx[0] != 1):
            return viol('auto_param_indices', n=nn, got=idx)
        if nn and idx[-1] > nn + 5:
            return viol('auto_param_indices_sparse', n=nn, got=idx)
    res['outcome'] = 'pure'
    res['ok'] = True
    return res


def run_bvp_dsl(case, res, sig, viol):
    """export with boundary_conditions / integral_constraints and call the compiled bcnd / icnd routines"""
    from pyrates import OperatorTemplate, NodeTemplate, CircuitTemplate
    import copy
    P, n = case['P'], case['n']
    op = make_op(P, n, case['order'])
    op['vars']['intval'] = 0.25          # used by the integral constraint only
    fname = f"b18_{P}_{case['order']}"
    pa, pb, pc = f'p{P}', 'p2' if P > 1 else 'p1', f'p{max(P - 1, 1)}'
    try:
        o = OperatorTemplate('aop', equations=list(op['eqs']), variables=copy.deepcopy(op['vars']))
        c = CircuitTemplate('an', nodes={'p': NodeTemplate('pn', operators=[o])})
        f, a, names, svm = c.get_run_func(
            'vfx', step_size=1e-3, file_name=fname, backend='fortran', float_precision='float64', auto=True, vectorize=False,
            solver='scipy', verbose=False, auto_constants=('ivp', 'bvp'),
            boundary_conditions=[f'u0_x1 - u1_x1 + par_{pa}', f'u0_x2 - par_{pb}*u1_x2', f'u1_x3 - par_{pc}'],
            integral_constraints=['u_x1 - par_intval'])
    except Exception as e:
        sig['exc'] = type(e).__name__
        return viol('raises', detail=f'{type(e).__name__}: {e}'[:300])
    src = re.sub(r'&\s*\n\s*&?', '', open(f'{fname}.f90').read())
    consts = {}
    for line in open('c.bvp').read().splitlines():
        if '=' in line:
            k, v = line.split('=', 1)
            try:
                consts[k.strip()] = ast.literal_eval(v.strip())
            except Exception:
                consts[k.strip()] = v.strip()
    slot = {v: k for k, v in consts.get('parnames', {}).items()}
    for name in [f'p{j + 1}' for j in range(P)] + ['intval']:
        if name not in slot or slot[name] in RESERVED:
            return viol('parnames', missing_or_reserved=name, got=consts.get('parnames'))
    for routine in ('bcnd', 'icnd'):
        i0 = src.find(f'subroutine {routine}(')
        body = src[i0:src.find(f'end subroutine {routine}')]
        used = sorted({int(k) for k in re.findall(r'args\((\d+)\)', body)})
        if any(k not in slot.values() for k in used):
            return viol('residual_reads_foreign_slot', routine=routine, slots=used, parnames=consts.get('parnames'))
    if os.getcwd() not in sys.path:
        sys.path.insert(0, os.getcwd())
    mod = importlib.import_module(fname)
    par = np.zeros(max(int(consts.get('NPAR', 36)), 36))
    y0 = np.zeros(n)
    mod.stpnt(y0, par, 0.0)
    val = lambda nm: float(op['vars'][nm])
    for nm in slot:
        if abs(par[slot[nm] - 1] - val(nm)) > 1e-12:
            return viol('stpnt_value', param=nm, slot=slot[nm], got=float(par[slot[nm] - 1]))
    u0, u1 = np.array([0.3, -0.7, 1.1]), np.array([0.9, 0.4, -0.6])
    icp = np.array([1, 2], dtype=np.int32)
    fb = np.asarray(mod.bcnd(par, icp, u0, u1, 0, np.zeros((3, 40), order='F')), dtype=float)
    fb_ref = np.array([u0[0] - u1[0] + val(pa), u0[1] - val(pb) * u1[1], u1[2] - val(pc)])
    fi = np.asarray(mod.icnd(par, icp, u0, u0, u0, u0, 0, np.zeros((1, 40), order='F')), dtype=float)
    res['evals'] += 2
    if fb.shape != fb_ref.shape or np.max(np.abs(fb - fb_ref)) > 1e-12:
        return viol('bcnd_residual', got=fb.tolist(), expected=fb_ref.tolist())
    if abs(float(fi.reshape(-1)[0]) - (u0[0] - 0.25)) > 1e-12:
        return viol('icnd_residual', got=fi.tolist(), expected=[u0[0] - 0.25])
    res['outcome'] = 'bvp_dsl'
    res['ok'] = True
    return res
