"""spec -> real PyRates template objects through the public Python classes."""
import copy


def build_py(spec):
    from pyrates import OperatorTemplate, NodeTemplate, EdgeTemplate, CircuitTemplate
    ops = {}
    for name, o in spec['ops'].items():
        ops[name] = OperatorTemplate(name=name, equations=list(o['eqs']), variables=copy.deepcopy(o['vars']),
                                     path=None)
    share = spec.get('share', True)
    ncache = {}

    def graph_tpl(cls, name, oplist):
        if any(ov for _, ov in oplist):
            operators = {ops[o]: dict(ov) for o, ov in oplist}
        else:
            operators = [ops[o] for o, _ in oplist]
        return cls(name=name, operators=operators, path=None)

    def node_tpl(name):
        if share:
            if name not in ncache:
                ncache[name] = graph_tpl(NodeTemplate, name, spec['node_tpls'][name])
            return ncache[name]
        return graph_tpl(NodeTemplate, name, spec['node_tpls'][name])

    etpls = {name: graph_tpl(EdgeTemplate, name, ol) for name, ol in (spec.get('edge_tpls') or {}).items()}

    def circuit(c, name, built_siblings):
        kw = {}
        if c.get('nodes'):
            kw['nodes'] = {label: node_tpl(t) for label, t in c['nodes'].items()}
        if c.get('circuits'):
            subs = {}
            for label, sub in c['circuits'].items():
                if 'same_as' in sub:
                    subs[label] = subs[sub['same_as']]
                else:
                    subs[label] = circuit(sub, sub.get('name', label), subs)
            kw['circuits'] = subs
        edges = []
        for src, tgt, tpl, attrs in c.get('edges') or []:
            edges.append((src, tgt, etpls[tpl] if tpl else None, copy.deepcopy(attrs) if attrs is not None else {}))
        if edges:
            kw['edges'] = edges
        return CircuitTemplate(name=name, **kw)

    return circuit(spec['circuit'], spec['circuit'].get('name', 'net'), {})
