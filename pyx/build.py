"""spec -> real PyRates template objects through the public Python classes."""
import copy


def build_py(spec):
    from pyrates import OperatorTemplate, NodeTemplate, EdgeTemplate, CircuitTemplate
    ops = {}
    for name, o in spec['ops'].items():
        ops[name] = OperatorTemplate(name=name, equations=list(o['eqs']), variables=copy.deepcopy(o['vars']),
                                     path=None)
    share = spec.get('share', True)
    ncache = {}
    display = spec.get('tpl_names') or {}     # template key -> `name` attribute (default: the key itself)

    def graph_tpl(cls, name, oplist):
        if any(ov for _, ov in oplist):
            operators = {ops[o]: dict(ov) for o, ov in oplist}
        else:
            operators = [ops[o] for o, _ in oplist]
        return cls(name=display.get(name, name), operators=operators, path=None)

    def node_tpl(name):
        if share:
            if name not in ncache:
                ncache[name] = graph_tpl(NodeTemplate, name, spec['node_tpls'][name])
            return ncache[name]
        return graph_tpl(NodeTemplate, name, spec['node_tpls'][name])

    etpls = {name: graph_tpl(EdgeTemplate, name, ol) for name, ol in (spec.get('edge_tpls') or {}).items()}

    def circuit(c, name, built_siblings):
        kw = {}
        if c.get('nodes'):
            kw['nodes'] = {label: node_tpl(t) for label, t in c['nodes'].items()}
        if c.get('circuits'):
            subs = {}
            for label, sub in c['circuits'].items():
                if 'same_as' in sub:
                    subs[label] = subs[sub['same_as']]
                else:
                    subs[label] = circuit(sub, sub.get('name', label), subs)
            kw['circuits'] = subs
        edges = []
        for src, tgt, tpl, attrs in c.get('edges') or []:
            edges.append((src, tgt, etpls[tpl] if tpl else None, copy.deepcopy(attrs) if attrs is not None else {}))
        if edges:
            kw['edges'] = edges
        return CircuitTemplate(name=name, **kw)

    return circuit(spec['circuit'], spec['circuit'].get('name', 'net'), {})


def yaml_text(spec):
    """own YAML emitter (independent of PyRates' to_yaml)"""
    import json
    lines = ['%YAML 1.2', '---', '']

    def val(v):
        if isinstance(v, str):
            return json.dumps(v)
        if v is None:
            return 'null'
        if isinstance(v, bool):
            return 'true' if v else 'false'
        return repr(float(v)) if isinstance(v, float) else repr(v)
    for name, o in spec['ops'].items():
        lines += [f'{name}:', '  base: OperatorTemplate', '  equations:']
        lines += [f'    - {json.dumps(e)}' for e in o['eqs']]
        lines += ['  variables:'] + [f'    {k}: {val(v)}' for k, v in o['vars'].items()] + ['']

    def graph(name, base, oplist):
        out = [f'{name}:', f'  base: {base}', '  operators:']
        if any(ov for _, ov in oplist):
            for o, ov in oplist:
                if ov:
                    out += [f'    {o}:'] + [f'      {k}: {val(v)}' for k, v in ov.items()]
                else:
                    out += [f'    {o}: {{}}']
        else:
            out += [f'    - {o}' for o, _ in oplist]
        return out + ['']
    for name, ol in spec['node_tpls'].items():
        lines += graph(name, 'NodeTemplate', ol)
    for name, ol in (spec.get('edge_tpls') or {}).items():
        lines += graph(name, 'EdgeTemplate', ol)
    counter = [0]
    defs = []

    def circuit(c, siblings):
        name = f"Circ{counter[0]}_{c.get('name', 'net')}"
        counter[0] += 1
        out = [f'{name}:', '  base: CircuitTemplate']
        if c.get('nodes'):
            out += ['  nodes:'] + [f'    {l}: {t}' for l, t in c['nodes'].items()]
        if c.get('circuits'):
            subs = {}
            for l, sub in c['circuits'].items():
                subs[l] = subs[sub['same_as']] if 'same_as' in sub else circuit(sub, subs)
            out += ['  circuits:'] + [f'    {l}: {n}' for l, n in subs.items()]
        out += ['  edges:']
        if c.get('edges'):
            for s, t, tpl, attrs in c['edges']:
                a = ', '.join(f'{json.dumps(k)}: {val(v)}' for k, v in (attrs or {}).items())
                out += [f'    - [{json.dumps(s)}, {json.dumps(t)}, {tpl if tpl else "null"}, {{{a}}}]']
        else:
            out[-1] = '  edges: []'
        defs.append(out + [''])
        return name
    top = circuit(spec['circuit'], {})
    for d in defs:
        lines += d
    return '\n'.join(lines) + '\n', top


def build_yaml(spec, fname='ymod'):
    from pyrates import CircuitTemplate
    text, top = yaml_text(spec)
    with open(f'{fname}.yaml', 'w') as f:
        f.write(text)
    return CircuitTemplate.from_yaml(f'{fname}/{top}')


def build_roundtrip(spec, fname='rt'):
    """python classes -> to_yaml -> from_yaml (fresh caches in between)"""
    from pyrates import CircuitTemplate, clear_frontend_caches
    c = build_py(spec)
    name = c.name
    c.to_yaml(f'{fname}.yaml')
    del c
    clear_frontend_caches()
    return CircuitTemplate.from_yaml(f'{fname}/{name}')
