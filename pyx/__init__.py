"""pyx - bounded exhaustive explorer for PyRates (see /verif/DESIGN.md)."""
