"""Per-case isolation of PyRates' process-global state (DESIGN.md 2.6).

A deep snapshot of every module-level mutable container and every mutable class attribute of all
loaded ``pyrates.*`` modules is taken once per worker (after eager import of the backends the run
needs, before any API call) and restored *in place* before every case.
"""
import copy
import os
import sys
import types
import warnings

_SNAP = None
_MOD_BASE = None
_PATH_BASE = None
_WARN_BASE = None

_CONTAINER = (dict, list, set)


def eager_import(backends=()):
    os.environ['PATH'] = '/venv/bin:' + os.environ.get('PATH', '')
    repo = os.environ.get('PYX_REPO')
    if repo and repo not in sys.path:
        sys.path.insert(0, repo)
    import pyrates  # noqa
    import pyrates.frontend.template.population  # noqa
    import pyrates.utility  # noqa
    import pyrates.backend.base.base_backend  # noqa
    import pyrates.backend.base.base_funcs  # noqa
    import pyrates.frontend.fileio.yaml  # noqa
    import pyrates.frontend.dict  # noqa
    import pyrates.frontend.file  # noqa  (otherwise imported lazily by the first YAML load: its module-level mapping
    import pyrates.frontend.fileio.pickle  # noqa   would enter the C13 state hash only in workers that loaded YAML before)
    for b in backends:
        if b == 'torch':
            import torch  # noqa
            import pyrates.backend.torch.torch_backend  # noqa
        elif b == 'jax':
            import jax  # noqa
            import pyrates.backend.jax.jax_backend  # noqa
        elif b == 'fortran':
            import pyrates.backend.fortran.fortran_backend  # noqa


def _iter_containers():
    for mname, mod in sorted(sys.modules.items()):
        if mod is None or not (mname == 'pyrates' or mname.startswith('pyrates.')):
            continue
        for aname, val in sorted(vars(mod).items()):
            if aname.startswith('__'):
                continue
            if isinstance(val, _CONTAINER) and not isinstance(val, types.ModuleType):
                yield (mname, aname, None), val
            elif isinstance(val, type) and getattr(val, '__module__', None) == mname:
                for cname, cval in sorted(vars(val).items()):
                    if cname.startswith('__'):
                        continue
                    if isinstance(cval, _CONTAINER):
                        yield (mname, aname, cname), cval
                    elif isinstance(cval, (int, float, str)) and not isinstance(cval, bool) and cname.startswith('_') \
                            and 'counter' in cname:
                        yield (mname, aname, cname), cval


def snapshot():
    """Take the import-time snapshot (idempotent)."""
    global _SNAP, _MOD_BASE, _PATH_BASE, _WARN_BASE
    if _SNAP is not None:
        return
    _SNAP = {}
    seen = set()
    for key, val in _iter_containers():
        if isinstance(val, _CONTAINER):
            if id(val) in seen:
                continue
            seen.add(id(val))
            _SNAP[key] = (val, copy.deepcopy(val))
        else:
            _SNAP[key] = (None, val)
    _MOD_BASE = set(sys.modules)
    _PATH_BASE = list(sys.path)
    _WARN_BASE = list(warnings.filters)


def snapshot_keys():
    return sorted('.'.join(x for x in k if x) for k in _SNAP)


def restore():
    """Restore every container to the import-time snapshot, in place."""
    for key, (obj, snap) in _SNAP.items():
        if obj is None:
            mname, aname, cname = key
            setattr(getattr(sys.modules[mname], aname), cname, snap)
            continue
        fresh = copy.deepcopy(snap)
        if isinstance(obj, dict):
            obj.clear()
            obj.update(fresh)
        elif isinstance(obj, list):
            obj[:] = fresh
        else:
            obj.clear()
            obj.update(fresh)
    scratch = os.environ.get('PYX_SCRATCH_ROOT', '\0')
    for m in list(sys.modules):
        if m in _MOD_BASE:
            continue
        mod = sys.modules.get(m)
        f = getattr(mod, '__file__', None) or ''
        if getattr(mod, '__spec__', None) is None or f.startswith(scratch) or (f and not os.path.isabs(f)):
            del sys.modules[m]
    sys.path[:] = _PATH_BASE
    warnings.filters[:] = _WARN_BASE
    try:
        warnings._filters_mutated()
    except Exception:
        pass


def state_dump():
    """Canonical dump of the global containers (C13 state hash)."""
    out = {}
    for key, val in _iter_containers():
        name = '.'.join(x for x in key if x)
        out[name] = _canon(val)
    return out


def _canon(v, depth=0):
    if depth > 6:
        return '<deep>'
    if isinstance(v, dict):
        return {str(k): _canon(x, depth + 1) for k, x in sorted(v.items(), key=lambda kv: str(kv[0]))}
    if isinstance(v, (list, tuple)):
        return [_canon(x, depth + 1) for x in v]
    if isinstance(v, set):
        return sorted(str(x) for x in v)
    if isinstance(v, (int, float, str, bool)) or v is None:
        return v
    if hasattr(v, 'tolist'):
        try:
            return v.tolist()
        except Exception:
            pass
    if callable(v):
        return getattr(v, '__name__', type(v).__name__)
    return type(v).__name__
