"""Worker pool: every case runs on the real code in a long-lived worker whose PyRates module state
is restored to the import-time snapshot before the case (DESIGN.md 2.6)."""
import importlib
import io
import contextlib
import multiprocessing as mp
import os
import shutil
import signal
import sys
import tempfile
import time
import traceback
import warnings

from . import isolate

_WDIR = None
_PROP = None


class CaseTimeout(BaseException):   # not an Exception: the `except Exception` blocks of the checks must not swallow it
    pass


def _alarm(signum, frame):
    raise CaseTimeout('case exceeded its time budget')


def _init(prop, backends, scratch_root, x64):
    global _WDIR, _PROP
    os.environ['PYX_SCRATCH_ROOT'] = scratch_root
    os.environ.setdefault('PYTHONHASHSEED', '0')
    os.environ.setdefault('JAX_PLATFORMS', 'cpu')
    os.environ.setdefault('OMP_NUM_THREADS', '1')
    os.environ.setdefault('MKL_NUM_THREADS', '1')
    _WDIR = tempfile.mkdtemp(prefix=f'w{os.getpid()}_', dir=scratch_root)
    os.chdir(_WDIR)
    if _WDIR not in sys.path:
        sys.path.insert(0, _WDIR)
    warnings.simplefilter('ignore')
    isolate.eager_import(backends)
    if 'torch' in backends:
        import torch
        torch.set_num_threads(1)
    if 'jax' in backends and x64 is not None:
        import jax
        jax.config.update('jax_enable_x64', bool(x64))
    isolate.snapshot()
    _PROP = importlib.import_module(f'pyx.props.{prop}')
    signal.signal(signal.SIGALRM, _alarm)


def clean_cwd():
    for f in os.listdir('.'):
        p = os.path.join('.', f)
        try:
            if os.path.isdir(p) and not os.path.islink(p):
                shutil.rmtree(p, ignore_errors=True)
            else:
                os.unlink(p)
        except OSError:
            pass


def fresh_state():
    """Reset the worker to the pristine post-import state."""
    os.chdir(_WDIR)
    clean_cwd()
    isolate.restore()
    warnings.simplefilter('ignore')


def _work(item):
    idx, case, budget = item
    t0 = time.time()
    try:
        fresh_state()
        signal.alarm(int(budget))
        buf = io.StringIO()
        try:
            with contextlib.redirect_stdout(buf):
                res = _PROP.run_case(case)
        finally:
            signal.alarm(0)
    except CaseTimeout as e:
        res = {'ok': False, 'viol': {'kind': 'timeout', 'detail': str(e)}}
    except BaseException as e:  # harness error inside run_case: never silently pass
        res = {'ok': False, 'viol': {'kind': 'harness_error', 'detail': f'{type(e).__name__}: {e}',
                                     'trace': traceback.format_exc()[-3000:]}}
    res.setdefault('ok', res.get('viol') is None)
    res['idx'] = idx
    res['wall'] = time.time() - t0
    return res


def run(prop, cases, backends=(), nproc=None, budget=180, x64=None, chunksize=1, recycle=400):
    """Run all cases; yields (case, result) in completion order."""
    nproc = nproc or int(os.environ.get('PYX_NPROC', '16'))
    root = os.environ.get('PYX_SCRATCH') or tempfile.mkdtemp(prefix='pyx_')
    os.makedirs(root, exist_ok=True)
    ctx = mp.get_context('spawn')
    cases = list(cases)
    nproc = max(1, min(nproc, len(cases)))
    try:
        with ctx.Pool(nproc, initializer=_init, initargs=(prop, tuple(backends), root, x64),
                      maxtasksperchild=recycle) as pool:
            items = [(i, c, budget) for i, c in enumerate(cases)]
            for res in pool.imap_unordered(_work, items, chunksize=chunksize):
                yield cases[res['idx']], res
    finally:
        if not os.environ.get('PYX_SCRATCH'):
            shutil.rmtree(root, ignore_errors=True)


def run_inline(prop, case, backends=(), x64=None):
    """Run one case in this process (replay)."""
    root = tempfile.mkdtemp(prefix='pyx_')
    try:
        _init(prop, tuple(backends), root, x64)
        return _work((0, case, 600))
    finally:
        os.chdir('/')
        shutil.rmtree(root, ignore_errors=True)
