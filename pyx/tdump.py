"""Canonical, JSON-able dump of template objects (observable for C07/C13/C14)."""
import numpy as np


def _val(v):
    if isinstance(v, np.ndarray):
        return ['nd', list(v.shape), [round(float(x), 12) for x in np.asarray(v, dtype=float).reshape(-1)[:64]]]
    if isinstance(v, (np.floating, np.integer)):
        return float(v)
    if isinstance(v, dict):
        return {str(k): _val(x) for k, x in sorted(v.items(), key=lambda kv: str(kv[0]))}
    if isinstance(v, (list, tuple)):
        return [_val(x) for x in v]
    if isinstance(v, (int, float, str, bool)) or v is None:
        return v
    if isinstance(v, complex):
        return ['c', v.real, v.imag]
    return f'<{type(v).__name__}>'


def dump_operator(op):
    return {'name': op.name, 'equations': list(op.equations), 'variables': _val(op.variables)}


def dump_graph_tpl(t, ids=None):
    """node or edge template: operators in order with their variations; object identities are mapped to small ints so
    that sharing is part of the observable"""
    out = {'name': t.name, 'ops': []}
    for op, var in t.operators.items():
        out['ops'].append([dump_operator(op), _val(var), _oid(op, ids)])
    return out


def _oid(o, ids):
    if ids is None:
        return None
    if id(o) not in ids:
        ids[id(o)] = len(ids)
    return ids[id(o)]


def dump_circuit(c, ids=None):
    ids = {} if ids is None else ids
    out = {'name': c.name, 'nodes': {}, 'circuits': {}, 'edges': [], 'edge_map': [], 'state': _val(dict(c._state_var_values))}
    for label, n in c.nodes.items():
        out['nodes'][label] = [dump_graph_tpl(n, ids), _oid(n, ids)]
    for label, sub in c.circuits.items():
        out['circuits'][label] = [dump_circuit(sub, ids), _oid(sub, ids)]
    for e in c.edges:
        s, t, tpl, attrs = e[0], e[1], e[2], e[3]
        out['edges'].append([s, t, dump_graph_tpl(tpl, ids) if tpl is not None else None, _val(attrs)] + [_val(x) for x in e[4:]])
    out['edge_map'] = sorted(str(k) for k in c._edge_map)
    pops = getattr(c, 'populations', None) or {}
    out['populations'] = sorted(pops)
    out['n_connections'] = len(getattr(c, 'connections', None) or [])
    return out
